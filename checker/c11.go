package main

// C11 — malformed input yields an error, never a crash or runaway resource use.

import (
	"fmt"
	"go/token"
	"go/types"
	"os"
	"sort"
	"strings"

	"golang.org/x/tools/go/ssa"
)

func init() {
	register(&propDef{
		ID: "C11",
		Meta: propMeta{
			Explanation: "Each rule recognises one definite-defect pattern on the resolved program and nothing else: (R11a) an allocation (make, Buffer.Grow) whose size is data-dependent on an integer decoded from input (binary.Read / ByteOrder.UintN / xml|asn1|json|plist Unmarshal destinations, strconv), that is not width-bounded (<=16-bit source, masked, or compared equal to such a value) and has NO ordering comparison on any path from function entry to the allocation — through struct fields (field-based, a field stored only from validated values is clean) and through helper parameters (lifted to call sites, depth 3); a shift by a decoded amount is always unbounded; a comparison counts only if one of its outcomes rejects or the value is clamped, a comparison with zero or a negative constant is no upper bound, and a size of signed type read from the input needs a rejecting test on the negative side as well (or an unsigned conversion, or equality with a value that is not input) since a negative size panics in make; (R11r) every index of a CFB table by a sector id in lib/comdoc - the reader's chain walks included - lies behind a comparison of that id (the ids -1 and -2 are legal values of every chain link read from the file) or uses an id the allocator produced; (R11b) a division/modulus whose divisor is such a value with no comparison at all on the way; (R11c) every `go` statement reachable from the server's /sign handler either installs a deferred recover() or cannot reach a site reported by R11a/b/d/e (the HTTP recovery middleware only covers the request goroutine); (R11d) a loop that follows a chain through a table read from the file (v = T[v], or v read from a sector fetched by v) and whose only exits are the end-of-chain sentinel test and I/O errors — a cyclic chain never terminates; (R11e) dereference of a missed map lookup (shared with C04). (R11j) every index and slice bound computed from a field of a record decoded from the input (binary.Read, binary.Uint32 of input bytes, strconv) is compared with a bounding value - a positive constant, a length, a value that was not itself decoded - on every path before it is used; a comparison with zero, with a negative sentinel or with another decoded value bounds nothing; a buffer created with a size computed from the same value, a masked or reduced position and a record field some function of the module bounds when it decodes it are accepted; for fixed-size arrays only a constant up to the array length counts and a loop counter is as large as the bound it runs to; (R11k) a slice is not indexed with the range position of another list that was decoded from the input (XML, JSON, ASN.1, binary) unless a comparison involving the indexed slice's own length dominates, or the slice was made with that list's length; (R11l) when a module function has a return of a nil slice together with a nil error, no caller takes a constant position (index or slice bound) of that result unless a test of its length or nil-ness lies on every path from the call; (R11m) element k (a constant) of a slice field of a record filled by decoding, or of a slice field that is only ever grown with append, is taken only if the function, or a module function called by it from which the record may come, compares the length of that field with a constant in a branch, or the field was stored with a fixed length just before; (R11n) every test of a stream size against the mini-stream cutoff in lib/comdoc is the same predicate on the header field and selects the short table on its true side (C18 R18e): the reader follows a chain through the table its start was validated against; (R11f) code reachable from an unrecovered helper goroutine of the /sign handler never indexes a string or slice at a constant position without a length test; (R11h) a goroutine that consumes the read end of an io.Pipe closes or drains it on every path to its end (otherwise a reader that stops early leaves the writer blocked: a hang); (R11i) a slice of pointers allocated with a length and filled conditionally is never returned with its nil tail. (R11s) every cursor loop of the module (a for statement without post statement whose condition compares an integer local with a bound) advances the cursor by a positive constant, removes the element under the cursor from the bounded slice, or takes a next position that was computed as cursor + positive step, is only clamped to the bound and is never reduced except behind a test that keeps it above the cursor, on every way round its body (statement-tree walk, constants only); a way round that does none of these is a hang on that input.",
			NotDecided:  "absence of index/slice-bounds panics and nil dereferences in general, recursion depth, time complexity, and panics inside dependencies (xz, zip, asn1). `-d=ssa/check_bce` lists thousands of unproven bounds checks in this module; no sound analysis in reach decides them without drowning in false alarms, so they are not claimed.",
			Assumptions: []string{"any ordering comparison on the quantity counts as a check (a too-weak bound is not detected); field-based aliasing"},
		},
		Run: runC11,
	})
}

// taintExceptions: per-construct suppressions, each with the reason it is not a defect.
var taintExceptions = map[string]string{
	"(*lib/binpatch.PatchSet).Dump make([]byte)#1 cap":      "serialiser of an in-memory PatchSet: NewSize equals len(blob) of blobs that already exist in memory",
	"(*lib/authenticode.PEDigest).MakePatch make([]byte)#1": "pad2 = CertStart-OrigSize is the 8-byte alignment padding computed by DigestPE (0..7)",
}

func runC11(c *Ctx) {
	p := c.P
	t := newTaintEngine(p)
	c.Rule("R11a", "no allocation sized by an unchecked, not width-bounded value decoded from input", 15)
	c.Rule("R11b", "no division/modulus by an unchecked value decoded from input", 1)
	c.Rule("R11c", "helper goroutines reachable from the /sign handler recover from panics or cannot reach a reported defect site", 3)
	c.Rule("R11d", "loops following a chain through a table read from input have a bound other than the end-of-chain sentinel", 3)
	c.Rule("R11e", "no dereference of a missed map lookup", 10)

	defectFns := map[*ssa.Function]string{}
	wire := sortedKeys(t.wire)
	c.Note("R11a/b: %d wire struct types decoded from input: %v", len(wire), wire)
	for _, f := range t.scan() {
		rule := "R11a"
		if f.Kind == "div" {
			rule = "R11b"
		}
		key := fmt.Sprintf("%s %s", p.FName(f.Fn), f.What)
		c.Analysed(p.FName(f.Fn))
		if why, ok := taintExceptions[key]; ok {
			c.PassTrivial(rule, key, p.Pos(f.Instr.Pos()), "exception: "+why)
			continue
		}
		if f.OK {
			c.Pass(rule, key, p.Pos(f.Instr.Pos()), "from "+f.Origin+": a comparison on it precedes every use")
		} else {
			what := "allocation sized by"
			if f.Kind == "div" {
				what = "division by"
			}
			c.Fail(rule, key, p.Pos(f.Instr.Pos()), fmt.Sprintf("%s a value from %s with no bounding comparison on some path from entry %s", what, f.Origin, f.Note), f.Path...)
			defectFns[f.Fn] = key
		}
	}
	// R11j
	c.Rule("R11j", "no index or slice bound computed from a value decoded from input without an upper bound on every path", 20)
	for _, f := range t.scanIndex() {
		key := fmt.Sprintf("%s %s", p.FName(f.Fn), f.What)
		c.Analysed(p.FName(f.Fn))
		if f.OK {
			c.Pass("R11j", key, p.Pos(f.Instr.Pos()), "from "+f.Origin+": bounded from above before it is used as a position")
		} else {
			c.Fail("R11j", key, p.Pos(f.Instr.Pos()), "a buffer is indexed or sliced at a position computed from "+f.Origin+" and some path from entry reaches it without comparing that value with a bound: a crafted file makes this panic with an index out of range", f.Path...)
			defectFns[f.Fn] = key
		}
	}
	c.Rule("R11k", "a slice is not indexed by the range index of another, decoded list unless the two lengths were compared", 0)
	for _, f := range t.scanRangeIndex() {
		key := fmt.Sprintf("%s %s", p.FName(f.Fn), f.What)
		c.Analysed(p.FName(f.Fn))
		if f.OK {
			c.Pass("R11k", key, p.Pos(f.Instr.Pos()), "the lengths are compared first")
		} else {
			c.Fail("R11k", key, p.Pos(f.Instr.Pos()), "a slice is indexed with the position in a list whose length is "+f.Origin+", and nothing compares that length with the length of the indexed slice: one entry too many in the input makes this panic with an index out of range")
			defectFns[f.Fn] = key
		}
	}
	c.runControl("R11k range index control (ctl/idxin.Copy)", "idxin.Copy", func(cp *Prog) []gFinding {
		var out []gFinding
		for _, f := range newTaintEngine(cp).scanRangeIndex() {
			out = append(out, gFinding{Key: fmt.Sprintf("%s %s", cp.FName(f.Fn), f.What), OK: f.OK})
		}
		return out
	})
	c.Rule("R11l", "the result of a function that can return (nil, nil) is not indexed at a constant position by a caller that tested the error only", 0)
	for _, f := range nilResultIndexed(p) {
		c.Check(f.OK, "R11l", f.Key, f.Pos, "length or nil-ness tested first", f.Detail, f.Path...)
		if !f.OK {
			if fn := p.funcByName(f.Key); fn != nil {
				defectFns[fn] = f.Key
			}
		}
	}
	c.runControl("R11l nil result control (ctl/idxin.Tag)", "idxin.Tag", nilResultIndexed)
	c.Rule("R11q", "on everything reachable from the parser entry points, a constant number of bytes is cut off relative to the end of a buffer only behind a test of that buffer's length or content", 5)
	{
		// what arbitrary input reaches: every registered signer function, the server's sign handler, the verify command
		var roots []*ssa.Function
		for _, field := range []string{"Sign", "Verify", "VerifyStream", "Transform", "TestPath", "Fixup"} {
			for fn := range p.registeredSignerFuncs(field) {
				roots = append(roots, fn)
			}
		}
		for _, spec := range []string{"server.(*Server).serveSign", "cmdline/verify.verifyOne", "signers.(*Signer).IsSigned", "lib/magic.DetectCompressed", "lib/magic.Detect"} {
			if f := p.Func(spec); f != nil {
				roots = append(roots, f)
			}
		}
		within := p.moduleReachAll(roots)
		c.Note("R11q: %d functions reachable from the parser entry points", len(within))
		for _, f := range tailCutGuarded(p, within) {
			if why, ok := c11TailCutExceptions[f.Key]; ok && !f.OK {
				c.PassTrivial("R11q", f.Key, f.Pos, "exception: "+why)
				continue
			}
			c.Check(f.OK, "R11q", f.Key, f.Pos, "", f.Detail, f.Path...)
		}
	}
	c.runControl("R11q tail cut control (ctl/idxin.Chomp)", "idxin.Chomp", func(cp *Prog) []gFinding { return tailCutGuarded(cp, nil) })
	c.Rule("R11o", "the xz decoder's dictionary limit is a constant of at most 64 MiB", 2)
	for _, f := range xzDictionaryCapped(p) {
		c.Check(f.OK, "R11o", f.Key, f.Pos, "", f.Detail)
	}
	c.Rule("R11p", "a pointer result that is nil whenever its function fails is dereferenced only where the failure was excluded (module-wide)", 20)
	for _, f := range failedResultDereferenced(p) {
		c.Check(f.OK, "R11p", f.Key, f.Pos, "", f.Detail, f.Path...)
	}
	c.runControl("R11p failed result control (ctl/idxin.Arch)", "idxin.Arch", failedResultDereferenced)
	c.Rule("R11n", "the table a stream's chain was validated against is the table it is followed through: one cutoff predicate at every site (shared with C18 R18e)", 5)
	c18RuleCutoff = "R11n"
	c18Cutoff(c, p.pkgFuncs("lib/comdoc"))
	c18RuleCutoff = "R18e"
	c.Rule("R11r", "in lib/comdoc (reading side included) a table is indexed by a sector id only behind a comparison of that id, or with an id the allocator produced (the index clause of C18 R18c over the whole package)", 10)
	{
		cfb := p.pkgFuncs("lib/comdoc")
		scope := map[*ssa.Function]bool{}
		for _, f := range cfb {
			scope[f] = true
		}
		c18SectorIndexes(c, cfb, "R11r", scope)
	}
	c.Rule("R11m", "a fixed element of a list filled from the input is taken only after the list's length was tested", 6)
	for _, f := range emptyListIndexed(p, t) {
		c.Check(f.OK, "R11m", f.Key, f.Pos, f.Detail, f.Detail)
		if !f.OK {
			if fn := p.funcByName(f.Key); fn != nil {
				defectFns[fn] = f.Key
			}
		}
	}
	c.runControl("R11m empty list control (ctl/idxin.First)", "idxin.First", func(cp *Prog) []gFinding { return emptyListIndexed(cp, newTaintEngine(cp)) })
	c.runControl("R11j unchecked position control (ctl/idxin.Parse)", "idxin.Parse", func(cp *Prog) []gFinding {
		var out []gFinding
		for _, f := range newTaintEngine(cp).scanIndex() {
			out = append(out, gFinding{Key: fmt.Sprintf("%s %s", cp.FName(f.Fn), f.What), OK: f.OK})
		}
		return out
	})
	// R11d
	for _, f := range chainWalks(p) {
		if f.OK {
			c.Pass("R11d", f.Key, f.Pos, f.Detail)
		} else {
			c.Fail("R11d", f.Key, f.Pos, f.Detail, f.Path...)
			if fn := p.funcByName(f.Key); fn != nil {
				defectFns[fn] = f.Key
			}
		}
	}
	c.runControl("R11d chain-walk control (ctl/chain.(*Doc).Walk)", "chain.Doc).Walk chain-walk", chainWalks)
	// R11e
	for _, f := range nilRegionDerefs(p) {
		if f.OK {
			c.PassTrivial("R11e", f.Key, f.Pos, "no dereference in the missed-lookup region")
		} else {
			c.Fail("R11e", f.Key, f.Pos, f.Detail, f.Path...)
		}
	}
	c.runControl("R11e map-miss nil dereference control (ctl/nilmap.(*C).Get)", "nilmap.C).Get nil-deref", nilRegionDerefs)
	c.runControl("R11a unchecked allocation control (ctl/alloc.Parse)", "alloc.Parse make", func(cp *Prog) []gFinding {
		var out []gFinding
		for _, f := range newTaintEngine(cp).scan() {
			out = append(out, gFinding{Key: fmt.Sprintf("%s %s", cp.FName(f.Fn), f.What), OK: f.OK})
		}
		return out
	})
	// R11c
	c11Goroutines(c, defectFns)
	c.Rule("R11i", "a conditionally filled slice of pointers is never returned with its unfilled (nil) tail", 0)
	for _, f := range nilHoles(c.P) {
		c.Check(f.OK, "R11i", f.Key, f.Pos, "returned trimmed", f.Detail)
	}
	c.runControl("R11i nil holes", "holes.Parse", nilHoles)
	c.Rule("R11s", "every way round a cursor loop (no post statement, condition cursor < bound) advances the cursor or shrinks the bound", 4)
	for _, f := range cursorLoops(c.P) {
		c.Check(f.OK, "R11s", f.Key, f.Pos, f.Detail, f.Detail)
	}
	c.runControl("R11s cursor loop control (ctl/cursor.Wrap)", "cursor.Wrap", cursorLoops)
	c.Rule("R11h", "a goroutine that consumes the read end of a pipe releases it on every path to its end", 4)
	for _, f := range pipeReaderLeaks(c.P) {
		c.Check(f.OK, "R11h", f.Key, f.Pos, "the read end is closed or drained on every path", f.Detail)
	}
}

func (p *Prog) funcByName(key string) *ssa.Function {
	for _, fn := range p.Funcs {
		n := p.FName(fn)
		if len(key) >= len(n) && key[:len(n)] == n && (len(key) == len(n) || key[len(n)] == ' ') {
			return fn
		}
	}
	return nil
}

// chainWalks implements R11d.
func chainWalks(p *Prog) (out []gFinding) {
	for _, fn := range p.Funcs {
		for _, b := range fn.Blocks {
			for _, in := range b.Instrs {
				ph, ok := in.(*ssa.Phi)
				if !ok {
					break
				}
				if intWidth(ph.Type()) == 0 {
					continue
				}
				// blocks of the cycle through b
				fromB := reach(fn, b.Succs, nil, nil)
				if !fromB[b.Index] {
					continue
				}
				inLoop := map[int]bool{}
				for _, blk := range fn.Blocks {
					if fromB[blk.Index] && reach(fn, []*ssa.BasicBlock{blk}, nil, nil)[b.Index] {
						inLoop[blk.Index] = true
					}
				}
				// the carried update
				var next ssa.Value
				for i, e := range ph.Edges {
					if inLoop[b.Preds[i].Index] {
						next = e
					}
				}
				if next == nil {
					continue
				}
				table, kind := chainUpdate(p, fn, ph, next, inLoop)
				if kind == "" {
					continue
				}
				key := fmt.Sprintf("%s chain-walk %s", p.FName(fn), kind)
				// self-marking idiom: the loop overwrites T[v] (visited marker)
				if table != nil && loopStoresInto(fn, inLoop, table, ph) {
					out = append(out, gFinding{Key: key, Pos: p.Pos(ph.Pos()), OK: true, Detail: "visited entries are overwritten inside the loop, so a cycle ends the walk"})
					continue
				}
				// exits
				bounded := false
				var exits []string
				for bi := range inLoop {
					blk := fn.Blocks[bi]
					for si, s := range blk.Succs {
						if inLoop[s.Index] {
							continue
						}
						ifi, ok := blk.Instrs[len(blk.Instrs)-1].(*ssa.If)
						if !ok {
							bounded = true // range/other structured exit
							continue
						}
						cls := classifyExit(p, ifi, si == 0, ph)
						exits = append(exits, cls)
						if cls == "bound" {
							bounded = true
						}
					}
				}
				sort.Strings(exits)
				if bounded {
					out = append(out, gFinding{Key: key, Pos: p.Pos(ph.Pos()), OK: true, Detail: fmt.Sprintf("loop has an independent bound (exits: %v)", exits)})
				} else {
					out = append(out, gFinding{Key: key, Pos: p.Pos(ph.Pos()), Detail: fmt.Sprintf("the loop follows a chain taken from the file and stops only at the end-of-chain marker or an I/O error (exits: %v): a cyclic chain makes it run (and allocate) forever", exits)})
				}
			}
		}
	}
	return
}

// chainUpdate recognises v' = T[v] and v' = buf[k] where buf was filled by a call that
// took v as an argument inside the loop.
func chainUpdate(p *Prog, fn *ssa.Function, ph *ssa.Phi, next ssa.Value, inLoop map[int]bool) (ssa.Value, string) {
	next = stripIntConv(next)
	l, ok := next.(*ssa.UnOp)
	if !ok || l.Op != token.MUL {
		return nil, ""
	}
	ia, ok := l.X.(*ssa.IndexAddr)
	if !ok {
		return nil, ""
	}
	if stripIntConv(ia.Index) == ssa.Value(ph) {
		return ia.X, "v=T[v]"
	}
	// buffer filled from the sector named by v
	buf := ia.X
	for bi := range inLoop {
		for _, in := range fn.Blocks[bi].Instrs {
			call, ok := in.(*ssa.Call)
			if !ok {
				continue
			}
			usesV, usesBuf := false, false
			for _, a := range call.Call.Args {
				if stripIntConv(a) == ssa.Value(ph) {
					usesV = true
				}
				if dependsOn(a, func(x ssa.Value) bool { return x == buf }) || a == buf {
					usesBuf = true
				}
			}
			if usesV && usesBuf {
				return nil, "v=sector(v)[k]"
			}
		}
	}
	return nil, ""
}

func stripIntConv(v ssa.Value) ssa.Value {
	for {
		switch x := v.(type) {
		case *ssa.Convert:
			v = x.X
		case *ssa.ChangeType:
			v = x.X
		default:
			return v
		}
	}
}

func loopStoresInto(fn *ssa.Function, inLoop map[int]bool, table ssa.Value, ph *ssa.Phi) bool {
	for bi := range inLoop {
		for _, in := range fn.Blocks[bi].Instrs {
			st, ok := in.(*ssa.Store)
			if !ok {
				continue
			}
			if ia, ok := st.Addr.(*ssa.IndexAddr); ok && ia.X == table && stripIntConv(ia.Index) == ssa.Value(ph) {
				return true
			}
		}
	}
	return false
}

// classifyExit: what kind of test leaves the loop on this edge.
func classifyExit(p *Prog, ifi *ssa.If, onTrue bool, ph *ssa.Phi) string {
	cond := ifi.Cond
	for {
		if u, ok := cond.(*ssa.UnOp); ok && u.Op == token.NOT {
			cond = u.X
			continue
		}
		break
	}
	// visited-set test: `if seen[v]` on a map keyed by the carried value bounds the walk
	// by the number of distinct sectors
	isVisited := func(v ssa.Value) bool {
		if e, ok := v.(*ssa.Extract); ok {
			v = e.Tuple
		}
		l, ok := v.(*ssa.Lookup)
		if !ok {
			return false
		}
		if _, isMap := l.X.Type().Underlying().(*types.Map); !isMap {
			return false
		}
		idx := stripIntConv(l.Index)
		if idx == ssa.Value(ph) {
			return true
		}
		for _, e := range ph.Edges {
			if stripIntConv(e) == idx {
				return true
			}
		}
		return false
	}
	if isVisited(cond) {
		return "bound"
	}
	bo, ok := cond.(*ssa.BinOp)
	if !ok {
		return "other"
	}
	// error test
	if isNilConst(bo.X) || isNilConst(bo.Y) {
		return "error"
	}
	isV := func(v ssa.Value) bool {
		v = stripIntConv(v)
		if v == ssa.Value(ph) {
			return true
		}
		// the freshly loaded next value
		for _, e := range ph.Edges {
			if stripIntConv(e) == v {
				return true
			}
		}
		return false
	}
	_, xc := bo.X.(*ssa.Const)
	_, yc := bo.Y.(*ssa.Const)
	if (isV(bo.X) && yc) || (isV(bo.Y) && xc) {
		return "sentinel"
	}
	switch bo.Op {
	case token.LSS, token.LEQ, token.GTR, token.GEQ, token.EQL, token.NEQ:
		// a bound counts iterations: one side hangs on another value carried around this very loop
		// (a counter, a position). A test of what was just decoded (a name length, an entry type)
		// ends the walk on bad data but puts no limit on a cycle of good data.
		carried := func(v ssa.Value) bool {
			return dependsOn(v, func(x ssa.Value) bool {
				o, ok := x.(*ssa.Phi)
				return ok && o != ph && o.Block() == ph.Block()
			})
		}
		if carried(bo.X) || carried(bo.Y) {
			return "bound"
		}
		return "data"
	}
	return "other"
}

// c11Goroutines implements R11c.
func c11Goroutines(c *Ctx, defectFns map[*ssa.Function]string) {
	p := c.P
	root := p.Func("server.(*Server).serveSign")
	if root == nil {
		c.Undecided("R11c", "(*Server).serveSign", "-", "function not found")
		return
	}
	// functions reachable from the handler: every registered Signer.Sign plus the static closure
	roots := []*ssa.Function{root}
	for fn := range p.registeredSignerFuncs("Sign") {
		roots = append(roots, fn)
	}
	reachable := p.moduleReachAll(roots)
	var gos []*ssa.Go
	for fn := range reachable {
		for _, b := range fn.Blocks {
			for _, in := range b.Instrs {
				if g, ok := in.(*ssa.Go); ok {
					gos = append(gos, g)
				}
			}
		}
	}
	sort.Slice(gos, func(i, j int) bool { return gos[i].Pos() < gos[j].Pos() })
	n := map[string]int{}
	for _, g := range gos {
		fn := g.Parent()
		n[p.FName(fn)]++
		key := fmt.Sprintf("%s go#%d", p.FName(p.Outer(fn)), n[p.FName(fn)])
		var body *ssa.Function
		switch v := g.Call.Value.(type) {
		case *ssa.MakeClosure:
			body, _ = v.Fn.(*ssa.Function)
		case *ssa.Function:
			body = v
		}
		if body == nil {
			body = g.Call.StaticCallee()
		}
		if body == nil || body.Blocks == nil {
			c.PassTrivial("R11c", key, p.Pos(g.Pos()), "goroutine body outside the module")
			continue
		}
		c.Analysed(p.FName(body))
		if hasDeferredRecover(p, body) {
			c.Pass("R11c", key, p.Pos(g.Pos()), "deferred recover() installed")
			continue
		}
		inner := p.moduleReachAll([]*ssa.Function{body})
		var hits []string
		for f := range inner {
			if k, ok := defectFns[f]; ok {
				hits = append(hits, k)
			}
		}
		sort.Strings(hits)
		if len(hits) == 0 {
			c.Pass("R11c", key, p.Pos(g.Pos()), fmt.Sprintf("no recover, but none of the %d module functions it reaches contains a reported defect site", len(inner)))
		} else {
			c.Fail("R11c", key, p.Pos(g.Pos()), fmt.Sprintf("goroutine started while serving /sign has no recover() and reaches defect site(s) %v: a crafted upload crashes the whole server process (the recovery middleware only protects the request goroutine)", hits))
		}
	}
	c.Note("R11c: %d go statements in %d module functions reachable from /sign", len(gos), len(reachable))
	// R11f: inside goroutines that cannot recover, a constant-index access with no length
	// test at all is a fatal crash waiting for the right input
	c.Rule("R11f", "code reachable from an unrecovered helper goroutine of the /sign handler never indexes a string/slice at a constant position without any length test on the way", 0)
	scope := map[*ssa.Function]string{}
	for _, g := range gos {
		var body *ssa.Function
		switch v := g.Call.Value.(type) {
		case *ssa.MakeClosure:
			body, _ = v.Fn.(*ssa.Function)
		case *ssa.Function:
			body = v
		}
		if body == nil {
			body = g.Call.StaticCallee()
		}
		if body == nil || body.Blocks == nil || hasDeferredRecover(p, body) {
			continue
		}
		for f := range p.moduleReachAll([]*ssa.Function{body}) {
			scope[f] = p.FName(p.Outer(g.Parent()))
		}
	}
	var fns []*ssa.Function
	for f := range scope {
		fns = append(fns, f)
	}
	sort.Slice(fns, func(i, j int) bool { return p.FName(fns[i]) < p.FName(fns[j]) })
	for _, fn := range fns {
		for _, f := range constIndexNoLen(p, fn) {
			if f.OK {
				c.Pass("R11f", f.Key, f.Pos, f.Detail)
			} else {
				c.Fail("R11f", f.Key, f.Pos, f.Detail+" (runs in the unrecovered goroutine started by "+scope[fn]+": the panic kills the server)", f.Path...)
			}
		}
	}
	names := []string{}
	for _, f := range fns {
		names = append(names, p.FName(f))
	}
	c.Note("R11f: %d module functions run inside unrecovered helper goroutines: %v", len(fns), names)
	c.runControl("R11f constant-index control (ctl/idx.First)", "idx.First index[0]", func(cp *Prog) []gFinding {
		var out []gFinding
		for _, f := range cp.Funcs {
			out = append(out, constIndexNoLen(cp, f)...)
		}
		return out
	})
	if os.Getenv("RELICVET_DEBUG_IDX") != "" {
		for _, f := range p.Funcs {
			for _, x := range constIndexNoLen(p, f) {
				if !x.OK {
					fmt.Println("DEBUG-IDX", x.Key, x.Pos)
				}
			}
		}
	}
}

// constIndexNoLen: x[k] with constant k on a string/slice whose length is never compared
// (and which is not of statically known length) on some path to the access.
func constIndexNoLen(p *Prog, fn *ssa.Function) (out []gFinding) {
	n := 0
	for _, b := range fn.Blocks {
		for _, in := range b.Instrs {
			var x, idx ssa.Value
			switch v := in.(type) {
			case *ssa.Lookup:
				if _, isMap := v.X.Type().Underlying().(*types.Map); isMap {
					continue
				}
				x, idx = v.X, v.Index
			case *ssa.Index:
				// string (or array value) indexing
				if bt, ok := v.X.Type().Underlying().(*types.Basic); !ok || bt.Info()&types.IsString == 0 {
					continue
				}
				x, idx = v.X, v.Index
			case *ssa.IndexAddr:
				if _, isSlice := v.X.Type().Underlying().(*types.Slice); !isSlice {
					continue // arrays and pointers to arrays have a static length
				}
				x, idx = v.X, v.Index
			default:
				continue
			}
			k, isConst := constInt(idx)
			if !isConst {
				continue
			}
			// statically sized sources
			if staticLenAtLeast(x, k+1) {
				continue
			}
			n++
			key := fmt.Sprintf("%s index[%d]#%d", p.FName(fn), k, n)
			// group: x and what it was sliced / merged from
			g := map[ssa.Value]bool{}
			var walk func(v ssa.Value, d int)
			walk = func(v ssa.Value, d int) {
				if v == nil || g[v] || d > 12 {
					return
				}
				g[v] = true
				switch y := v.(type) {
				case *ssa.Slice:
					walk(y.X, d+1)
				case *ssa.Phi:
					for _, e := range y.Edges {
						walk(e, d+1)
					}
				case *ssa.ChangeType:
					walk(y.X, d+1)
				case *ssa.Convert:
					walk(y.X, d+1)
				case *ssa.UnOp:
					if a, ok := y.X.(*ssa.Alloc); ok {
						for _, r := range *a.Referrers() {
							if st, ok := r.(*ssa.Store); ok && st.Addr == a {
								walk(st.Val, d+1)
							}
						}
					}
				}
			}
			walk(x, 0)
			// only the value itself and what it is a *prefix-preserving* view of counts for len tests;
			// a test on the unsliced original does not bound a tail slice, so restrict to x and phis/loads
			direct := map[ssa.Value]bool{}
			var walk2 func(v ssa.Value, d int)
			walk2 = func(v ssa.Value, d int) {
				if v == nil || direct[v] || d > 8 {
					return
				}
				direct[v] = true
				switch y := v.(type) {
				case *ssa.Phi:
					// every incoming value must be tested: handled by requiring a test on the phi itself
					_ = y
				case *ssa.ChangeType:
					walk2(y.X, d+1)
				case *ssa.UnOp:
					if a, ok := y.X.(*ssa.Alloc); ok {
						for _, r := range *a.Referrers() {
							if st, ok := r.(*ssa.Store); ok && st.Addr == a {
								walk2(st.Val, d+1)
							}
							if l, ok := r.(*ssa.UnOp); ok {
								direct[l] = true
							}
						}
					}
				}
			}
			walk2(x, 0)
			del := map[edge]bool{}
			for _, bb := range fn.Blocks {
				ifi, ok := bb.Instrs[len(bb.Instrs)-1].(*ssa.If)
				if !ok {
					continue
				}
				if condTestsLen(p, ifi.Cond, direct) {
					for si := range bb.Succs {
						del[edge{bb.Index, si}] = true
					}
				}
			}
			pred := map[int]int{}
			if reach(fn, []*ssa.BasicBlock{fn.Blocks[0]}, del, pred)[b.Index] {
				out = append(out, gFinding{Key: key, Pos: p.Pos(in.Pos()), Detail: fmt.Sprintf("constant index [%d] into a value whose length is not tested on some path", k), Path: p.witness(fn, pred, b.Index)})
			} else {
				out = append(out, gFinding{Key: key, Pos: p.Pos(in.Pos()), OK: true, Detail: "a length test precedes the access"})
			}
		}
	}
	return
}

func staticLenAtLeast(x ssa.Value, n int64) bool {
	switch v := x.(type) {
	case *ssa.Const:
		if s, ok := constString(v); ok {
			return int64(len(s)) >= n
		}
	case *ssa.MakeSlice:
		if k, ok := constInt(v.Len); ok {
			return k >= n
		}
	case *ssa.Slice:
		// slice of an array / fixed-size value: arr[:]
		if pt, ok := v.X.Type().Underlying().(*types.Pointer); ok {
			if at, ok := pt.Elem().Underlying().(*types.Array); ok && v.High == nil {
				lo := int64(0)
				if v.Low != nil {
					l, ok := constInt(v.Low)
					if !ok {
						return false
					}
					lo = l
				}
				return at.Len()-lo >= n
			}
		}
		if v.High != nil {
			if hi, ok := constInt(v.High); ok {
				lo := int64(0)
				if v.Low != nil {
					l, ok := constInt(v.Low)
					if !ok {
						return false
					}
					lo = l
				}
				return hi-lo >= n
			}
		}
	case *ssa.Call:
		// hash sums have a fixed size
		if c := v.Common(); c.IsInvoke() && c.Method.Name() == "Sum" {
			return true
		}
	}
	return false
}

// condTestsLen: the condition compares len(y) for a y in the set, compares y with a
// string constant, or is strings.HasPrefix/HasSuffix(y, …) / bytes.HasPrefix.
func condTestsLen(p *Prog, cond ssa.Value, set map[ssa.Value]bool) bool {
	for {
		if u, ok := cond.(*ssa.UnOp); ok && u.Op == token.NOT {
			cond = u.X
			continue
		}
		break
	}
	isLen := func(v ssa.Value) bool {
		call, ok := stripIntConv(v).(*ssa.Call)
		if !ok {
			return false
		}
		bi, ok := call.Call.Value.(*ssa.Builtin)
		return ok && bi.Name() == "len" && set[call.Call.Args[0]]
	}
	switch x := cond.(type) {
	case *ssa.BinOp:
		if isLen(x.X) || isLen(x.Y) {
			return true
		}
		if set[x.X] || set[x.Y] {
			if _, ok := constString(x.X); ok {
				return true
			}
			if _, ok := constString(x.Y); ok {
				return true
			}
		}
	case *ssa.Call:
		switch p.calleeName(x.Common()) {
		case "strings.HasPrefix", "strings.HasSuffix", "bytes.HasPrefix", "bytes.HasSuffix":
			return set[x.Call.Args[0]]
		}
	}
	return false
}

func hasDeferredRecover(p *Prog, fn *ssa.Function) bool {
	for _, b := range fn.Blocks {
		for _, in := range b.Instrs {
			d, ok := in.(*ssa.Defer)
			if !ok {
				continue
			}
			var body *ssa.Function
			switch v := d.Call.Value.(type) {
			case *ssa.MakeClosure:
				body, _ = v.Fn.(*ssa.Function)
			case *ssa.Function:
				body = v
			}
			if body == nil {
				body = d.Call.StaticCallee()
			}
			if body == nil {
				continue
			}
			for _, bb := range body.Blocks {
				for _, i2 := range bb.Instrs {
					if call, ok := i2.(*ssa.Call); ok {
						if bi, ok := call.Call.Value.(*ssa.Builtin); ok && bi.Name() == "recover" {
							return true
						}
					}
				}
			}
		}
	}
	return false
}

// moduleReachAll: module functions reachable through static calls, closures, go/defer,
// and invoke-mode calls on ANY interface resolved to module implementers (over-approximate
// on purpose: a goroutine that might reach a defect site must be found).
func (p *Prog) moduleReachAll(roots []*ssa.Function) map[*ssa.Function]bool {
	return p.moduleReachOpt(roots, true)
}

// moduleReachOpt: with funcValues=false, calls through function values are resolved only
// when the callee is evident at the call site (a closure created in the same function);
// the "any address-taken function of identical signature" over-approximation is off.
func (p *Prog) moduleReachOpt(roots []*ssa.Function, resolveFuncValues bool) map[*ssa.Function]bool {
	seen := map[*ssa.Function]bool{}
	var work []*ssa.Function
	push := func(f *ssa.Function) {
		if f == nil || f.Blocks == nil || seen[f] || !p.InModule(pkgOf(f)) {
			return
		}
		seen[f] = true
		work = append(work, f)
	}
	for _, r := range roots {
		push(r)
	}
	implCache := map[string][]*ssa.Function{}
	// functions used as values anywhere in the module (targets of calls through variables)
	var funcValues []*ssa.Function
	fvSeen := map[*ssa.Function]bool{}
	for _, fn := range p.Funcs {
		for _, b := range fn.Blocks {
			for _, in := range b.Instrs {
				for _, op := range in.Operands(nil) {
					if op == nil || *op == nil {
						continue
					}
					var f *ssa.Function
					switch v := (*op).(type) {
					case *ssa.Function:
						f = v
					case *ssa.MakeClosure:
						f, _ = v.Fn.(*ssa.Function)
					}
					if f == nil || fvSeen[f] || f.Blocks == nil {
						continue
					}
					if ci, ok := in.(ssa.CallInstruction); ok && ci.Common().Value == *op {
						continue // direct call target
					}
					fvSeen[f] = true
					funcValues = append(funcValues, f)
				}
			}
		}
	}
	for len(work) > 0 {
		f := work[0]
		work = work[1:]
		for _, a := range f.AnonFuncs {
			push(a)
		}
		for _, b := range f.Blocks {
			for _, in := range b.Instrs {
				// functions whose address is taken here (callbacks handed to other code)
				for _, op := range in.Operands(nil) {
					if op == nil || *op == nil {
						continue
					}
					switch v := (*op).(type) {
					case *ssa.Function:
						push(v)
					case *ssa.MakeClosure:
						if fv, ok := v.Fn.(*ssa.Function); ok {
							push(fv)
						}
					}
				}
				ci, ok := in.(ssa.CallInstruction)
				if !ok {
					continue
				}
				cc := ci.Common()
				if sc := cc.StaticCallee(); sc != nil {
					push(sc)
					continue
				}
				if !cc.IsInvoke() {
					if mc, ok := cc.Value.(*ssa.MakeClosure); ok {
						if f, ok := mc.Fn.(*ssa.Function); ok {
							push(f)
						}
					}
					// call through a function value: any function of identical signature whose
					// address is taken somewhere
					if _, isBuiltin := cc.Value.(*ssa.Builtin); !isBuiltin && resolveFuncValues {
						sig := cc.Signature()
						for _, f := range funcValues {
							if types.Identical(f.Signature, sig) {
								push(f)
							}
						}
					}
				}
				if cc.IsInvoke() {
					it, ok := cc.Value.Type().Underlying().(*types.Interface)
					if !ok {
						continue
					}
					k := cc.Value.Type().String() + "." + cc.Method.Name()
					impls, ok := implCache[k]
					if !ok {
						for _, t := range p.implementersOf(it) {
							if m := p.methodOf(t, cc.Method.Name()); m != nil {
								impls = append(impls, m)
							}
						}
						implCache[k] = impls
					}
					for _, m := range impls {
						push(m)
					}
				}
			}
		}
	}
	return seen
}

// ------------------------------------------------------------------------------ R11h

// pipeReaderLeaks: for every io.Pipe whose read end is consumed by a goroutine, the goroutine
// must release the read end (Close/CloseWithError, or drain it into io.Discard) on every path
// to its end. Otherwise a reader that stops early (parse error, scanner limit) leaves the
// writer blocked forever in Write: a hang instead of an error.
func pipeReaderLeaks(p *Prog) (out []gFinding) {
	n := map[*ssa.Function]int{}
	for _, fn := range p.Funcs {
		for _, pc := range p.callsIn(fn, "io.Pipe") {
			var rd ssa.Value
			for _, r := range *pc.Value().Referrers() {
				if ex, ok := r.(*ssa.Extract); ok && ex.Index == 0 {
					rd = ex
				}
			}
			if rd == nil {
				continue
			}
			// the reader may be spilled to a cell when captured by reference
			ids := map[ssa.Value]bool{rd: true}
			for _, r := range *rd.Referrers() {
				if st, ok := r.(*ssa.Store); ok && st.Val == rd {
					ids[st.Addr] = true
				}
			}
			for _, b := range fn.Blocks {
				for _, in := range b.Instrs {
					g, ok := in.(*ssa.Go)
					if !ok {
						continue
					}
					mc, ok := g.Call.Value.(*ssa.MakeClosure)
					if !ok {
						continue
					}
					body, _ := mc.Fn.(*ssa.Function)
					if body == nil {
						continue
					}
					fv := -1
					for i, bnd := range mc.Bindings {
						if ids[bnd] {
							fv = i
						}
					}
					if fv < 0 {
						continue
					}
					n[fn]++
					key := fmt.Sprintf("%s pipe-reader goroutine#%d", p.FName(fn), n[fn])
					isReader := func(f *ssa.Function, v ssa.Value) bool {
						v = stripConv(v)
						if l, ok := v.(*ssa.UnOp); ok && l.Op == token.MUL {
							v = l.X
						}
						// free variable of this closure, or of a closure nested in it
						if x, ok := v.(*ssa.FreeVar); ok {
							for ff := f; ff != nil; ff = ff.Parent() {
								if ff == body {
									for i, bv := range body.FreeVars {
										if i == fv && (bv == x || sameFreeVarChain(f, x, body, bv)) {
											return true
										}
									}
								}
							}
						}
						return false
					}
					releases := func(f *ssa.Function, in ssa.Instruction) bool {
						ci, ok := in.(ssa.CallInstruction)
						if !ok {
							return false
						}
						name := p.calleeName(ci.Common())
						switch name {
						case "(*io.PipeReader).Close", "(*io.PipeReader).CloseWithError":
							return isReader(f, ci.Common().Args[0])
						case "io.Copy":
							dst := stripConv(ci.Common().Args[0])
							if l, ok := dst.(*ssa.UnOp); ok {
								if gl, ok := l.X.(*ssa.Global); ok && gl.Name() == "Discard" {
									return isReader(f, ci.Common().Args[1])
								}
							}
						}
						return false
					}
					// release points in the goroutine body: direct calls, or a defer of a closure that releases
					rel := map[int]bool{}
					for _, bb := range body.Blocks {
						for _, x := range bb.Instrs {
							if releases(body, x) {
								rel[bb.Index] = true
							}
							if d, ok := x.(*ssa.Defer); ok {
								if dmc, ok := d.Call.Value.(*ssa.MakeClosure); ok {
									if df, ok := dmc.Fn.(*ssa.Function); ok {
										for _, db := range df.Blocks {
											for _, dx := range db.Instrs {
												if releases(df, dx) {
													rel[bb.Index] = true
												}
											}
										}
									}
								}
							}
						}
					}
					del := map[edge]bool{}
					for bi := range rel {
						for si := range body.Blocks[bi].Succs {
							del[edge{bi, si}] = true
						}
					}
					seen := reach(body, []*ssa.BasicBlock{body.Blocks[0]}, del, nil)
					leak := ""
					for _, r := range returnsOf(body) {
						if seen[r.Block().Index] && !rel[r.Block().Index] {
							leak = p.Pos(r.Pos())
						}
					}
					if len(returnsOf(body)) == 0 {
						leak = ""
					}
					out = append(out, gFinding{Key: key, Pos: p.Pos(g.Pos()), OK: leak == "",
						Detail: "the goroutine that reads this pipe can finish without closing or draining the read end (its return at " + leak + "): when it stops reading early — a parse error, a bufio.Scanner line limit — the writer stays blocked in Write forever, so an unusual input hangs the operation instead of failing it"})
				}
			}
		}
	}
	return
}

// sameFreeVarChain: x (a free variable of an inner closure f) is bound, through the chain of
// enclosing closures, to the free variable bv of outer.
func sameFreeVarChain(f *ssa.Function, x *ssa.FreeVar, outer *ssa.Function, bv *ssa.FreeVar) bool {
	for f != nil && f != outer {
		parent := f.Parent()
		if parent == nil {
			return false
		}
		idx := -1
		for i, v := range f.FreeVars {
			if v == x {
				idx = i
			}
		}
		if idx < 0 {
			return false
		}
		mc := closureMaker(parent, f)
		if mc == nil || idx >= len(mc.Bindings) {
			return false
		}
		nx, ok := mc.Bindings[idx].(*ssa.FreeVar)
		if !ok {
			return false
		}
		x, f = nx, parent
	}
	return f == outer && x == bv
}

// ------------------------------------------------------------------------------ R11i

// nilHoles: a slice of pointers allocated WITH A LENGTH, whose elements are stored only on some
// iterations of the filling loop, and which is returned without being trimmed to the number of
// elements stored: the untouched tail is nil and the callers dereference it.
func nilHoles(p *Prog) (out []gFinding) {
	n := map[*ssa.Function]int{}
	for _, fn := range p.Funcs {
		for _, b := range fn.Blocks {
			for _, in := range b.Instrs {
				ms, ok := in.(*ssa.MakeSlice)
				if !ok {
					continue
				}
				sl, ok := ms.Type().Underlying().(*types.Slice)
				if !ok {
					continue
				}
				if _, isPtr := sl.Elem().Underlying().(*types.Pointer); !isPtr {
					continue
				}
				if isIntConst(ms.Len, 0) {
					continue
				}
				// element stores
				var stores []*ssa.Store
				for _, r := range *ms.Referrers() {
					if ia, ok := r.(*ssa.IndexAddr); ok {
						for _, rr := range *ia.Referrers() {
							if st, ok := rr.(*ssa.Store); ok && st.Addr == ssa.Value(ia) {
								stores = append(stores, st)
							}
						}
					}
				}
				if len(stores) != 1 {
					continue
				}
				_, skips := iterationSkips(fn, stores[0], nil)
				if !skips {
					continue
				}
				n[fn]++
				// returned untrimmed?
				bad := ""
				for _, r := range returnsOf(fn) {
					for i := range r.Results {
						for _, lf := range phiLeaves(retVal(r, i), nil, map[*ssa.Phi]bool{}) {
							if lf.V == ssa.Value(ms) {
								bad = p.Pos(r.Pos())
							}
						}
					}
				}
				out = append(out, gFinding{Key: fmt.Sprintf("%s conditionally filled []*T#%d", p.FName(fn), n[fn]), Pos: p.Pos(ms.Pos()), OK: bad == "",
					Detail: "a slice of pointers is allocated with its full length, filled only for some inputs, and returned untrimmed at " + bad + ": for an input with an entry that is skipped the result ends in nil pointers, which the callers dereference (a crash instead of an error)"})
			}
		}
	}
	return
}

// nilResultIndexed implements R11l: a module function that can return (nil, nil) - an empty
// result together with a nil error - and a caller that tests only the error and then indexes the
// result at a constant position.
// c11TailCutExceptions: R11q sites read and found safe by a contract of a dependency, one symbol each.
var c11TailCutExceptions = map[string]string{
	"signers/rpm.nevra tail cut#1 of 4 bytes is behind a length test": "rpmutils.NEVRA.String() is fmt.Sprintf(\"%s-%s:%s-%s.%s.rpm\", ...): it always ends in the four bytes that are cut",
}

func nilResultIndexed(p *Prog) (out []gFinding) {
	// functions with a success return whose slice result is the nil constant
	nilOK := map[*ssa.Function]map[int]bool{}
	for _, fn := range p.Funcs {
		ei := errResultIndex(fn.Signature)
		if ei < 0 {
			continue
		}
		for _, r := range returnsOf(fn) {
			if ei >= len(r.Results) {
				continue
			}
			if k, ok := r.Results[ei].(*ssa.Const); !ok || !k.IsNil() {
				continue
			}
			for i, rv := range r.Results {
				if i == ei {
					continue
				}
				if _, isSlice := rv.Type().Underlying().(*types.Slice); !isSlice {
					continue
				}
				if k, ok := rv.(*ssa.Const); ok && k.IsNil() {
					if nilOK[fn] == nil {
						nilOK[fn] = map[int]bool{}
					}
					nilOK[fn][i] = true
				}
			}
		}
	}
	for _, fn := range p.Funcs {
		n := 0
		for _, b := range fn.Blocks {
			for _, in := range b.Instrs {
				ex, ok := in.(*ssa.Extract)
				if !ok {
					continue
				}
				call, ok := ex.Tuple.(*ssa.Call)
				if !ok {
					continue
				}
				sc := call.Common().StaticCallee()
				if sc == nil || !nilOK[sc][ex.Index] {
					continue
				}
				// every such return may be ruled out by the constants this call passes (`if n == 0 { return nil, nil }` called with 64)
				if nilReturnsInfeasible(sc, ex.Index, call) {
					continue
				}
				// uses of the result at a constant position
				vals := map[ssa.Value]bool{ex: true}
				for changed := true; changed; {
					changed = false
					for v := range vals {
						refs := v.Referrers()
						if refs == nil {
							continue
						}
						for _, r := range *refs {
							if ph, ok := r.(*ssa.Phi); ok && !vals[ph] {
								vals[ph] = true
								changed = true
							}
							// a variable whose address is taken lives in a cell: its loads stand for it
							if st, ok := r.(*ssa.Store); ok && st.Val == v {
								if a, ok := st.Addr.(*ssa.Alloc); ok {
									for _, ar := range *a.Referrers() {
										if l, ok := ar.(*ssa.UnOp); ok && l.Op == token.MUL && !vals[l] {
											vals[l] = true
											changed = true
										}
									}
								}
							}
						}
					}
				}
				for v := range vals {
					refs := v.Referrers()
					if refs == nil {
						continue
					}
					for _, r := range *refs {
						var at ssa.Instruction
						switch x := r.(type) {
						case *ssa.IndexAddr:
							if x.X == v {
								if _, isK := constInt(x.Index); isK {
									at = x
								}
							}
						case *ssa.Slice:
							if x.X == v && ((x.Low != nil && !isIntConst(x.Low, 0)) || x.High != nil) {
								if (x.Low == nil || isConstVal(x.Low)) && (x.High == nil || isConstVal(x.High)) {
									at = x
								}
							}
						}
						if at == nil {
							continue
						}
						n++
						key := fmt.Sprintf("%s uses result of %s#%d", p.FName(fn), p.FName(sc), n)
						// a test of the length (or of nil-ness) of one of the values on every path?
						del := map[edge]bool{}
						for _, blk := range fn.Blocks {
							ifi, ok := blk.Instrs[len(blk.Instrs)-1].(*ssa.If)
							if !ok {
								continue
							}
							bo, ok := ifi.Cond.(*ssa.BinOp)
							if !ok {
								continue
							}
							tests := false
							for _, side := range []ssa.Value{bo.X, bo.Y} {
								if c2, ok := stripConv(side).(*ssa.Call); ok {
									if bi, ok := c2.Call.Value.(*ssa.Builtin); ok && bi.Name() == "len" && vals[c2.Call.Args[0]] {
										tests = true
									}
								}
								if vals[side] {
									tests = true // compared with nil
								}
							}
							if tests {
								for si := range blk.Succs {
									del[edge{blk.Index, si}] = true
								}
							}
						}
						pred := map[int]int{}
						seen := reachAfter(fn, call, del, pred)
						unguarded := seen[at.Block().Index] || at.Block() == call.Block()
						out = append(out, gFinding{Key: key, Pos: p.Pos(at.Pos()), OK: !unguarded, Path: p.witness(fn, pred, at.Block().Index),
							Detail: fmt.Sprintf("%s can return a nil slice together with a nil error (it has such a return), and this caller, having tested the error only, takes a constant position of the result: the input that makes the callee return nothing makes this panic", p.FName(sc))})
					}
				}
			}
		}
	}
	return out
}

func isConstVal(v ssa.Value) bool {
	_, ok := v.(*ssa.Const)
	return ok
}

// nilReturnsInfeasible: every (nil, nil) return of sc sits behind a test of a parameter against a
// constant that the constant argument of this call decides the other way.
func nilReturnsInfeasible(sc *ssa.Function, ri int, call *ssa.Call) bool {
	ei := errResultIndex(sc.Signature)
	args := call.Common().Args
	for _, r := range returnsOf(sc) {
		if ei >= len(r.Results) || ri >= len(r.Results) {
			return false
		}
		ke, ok1 := r.Results[ei].(*ssa.Const)
		kr, ok2 := r.Results[ri].(*ssa.Const)
		if !ok1 || !ok2 || !ke.IsNil() || !kr.IsNil() {
			continue
		}
		ruledOut := false
		for _, d := range sc.Blocks {
			if d == r.Block() || !d.Dominates(r.Block()) {
				continue
			}
			ifi, ok := d.Instrs[len(d.Instrs)-1].(*ssa.If)
			if !ok {
				continue
			}
			bo, ok := ifi.Cond.(*ssa.BinOp)
			if !ok {
				continue
			}
			pa, isP := bo.X.(*ssa.Parameter)
			k, isK := constInt(bo.Y)
			if !isP || !isK {
				continue
			}
			idx := -1
			for i, p2 := range sc.Params {
				if p2 == pa {
					idx = i
				}
			}
			if idx < 0 || idx >= len(args) {
				continue
			}
			a, isA := constInt(args[idx])
			if !isA {
				continue
			}
			var holds bool
			switch bo.Op {
			case token.EQL:
				holds = a == k
			case token.NEQ:
				holds = a != k
			case token.LSS:
				holds = a < k
			case token.LEQ:
				holds = a <= k
			case token.GTR:
				holds = a > k
			case token.GEQ:
				holds = a >= k
			default:
				continue
			}
			onTrue := d.Succs[0] == r.Block() || d.Succs[0].Dominates(r.Block())
			onFalse := d.Succs[1] == r.Block() || d.Succs[1].Dominates(r.Block())
			if (onTrue && !onFalse && !holds) || (onFalse && !onTrue && holds) {
				ruledOut = true
			}
		}
		if !ruledOut {
			return false
		}
	}
	return true
}

// c11ListExceptions: constant-position reads of a list the rule cannot see the length of, each
// confirmed by reading.
var c11ListExceptions = map[string]string{
	"lib/pkcs9.TimestampAndMarshal lib/pkcs7.SignedData.SignerInfos": "the SignedData is the one SignatureBuilder.Sign just built (every caller passes its result), which always holds exactly the SignerInfo of the signing key",
}

// emptyListIndexed implements R11m: a list that comes out of decoding (a slice field of a record
// filled by asn1/xml/json/plist/binary decoding) or that is only ever grown with append while
// parsing may be empty. Taking element k of it needs a test of its length: in the function, in a
// function it was obtained from, or by construction (the list was stored with a fixed length just
// before).
func emptyListIndexed(p *Prog, t *taintEngine) (out []gFinding) {
	// (b) fields whose every store is an append to themselves or nil
	type fkey struct{ tn, f string }
	appendOnly := map[fkey]bool{}
	other := map[fkey]bool{}
	for _, fn := range p.Funcs {
		for _, b := range fn.Blocks {
			for _, in := range b.Instrs {
				st, ok := in.(*ssa.Store)
				if !ok {
					continue
				}
				tn, f, _ := p.fieldAddr(st.Addr)
				if tn == "" {
					continue
				}
				if _, isSlice := st.Val.Type().Underlying().(*types.Slice); !isSlice {
					continue
				}
				k := fkey{strings.TrimPrefix(tn, "*"), f}
				isAppend := false
				if call, ok := st.Val.(*ssa.Call); ok {
					if bi, ok := call.Call.Value.(*ssa.Builtin); ok && bi.Name() == "append" {
						if t2, f2, _ := p.fieldLoad(call.Call.Args[0]); strings.TrimPrefix(t2, "*") == k.tn && f2 == k.f {
							isAppend = true
						}
					}
				}
				if c, ok := st.Val.(*ssa.Const); ok && c.IsNil() {
					isAppend = true
				}
				if isAppend {
					appendOnly[k] = true
				} else {
					other[k] = true
				}
			}
		}
	}
	// (c) fields that are assigned the result of a module function which builds its result by appending
	// to an empty list and never looks at how long it got
	grown := map[fkey]bool{}
	var grownLeaf func(v ssa.Value, seen map[ssa.Value]bool) (empty, fixed bool)
	grownLeaf = func(v ssa.Value, seen map[ssa.Value]bool) (empty, fixed bool) {
		v = stripConv(v)
		if v == nil || seen[v] {
			return false, false
		}
		seen[v] = true
		switch x := v.(type) {
		case *ssa.Const:
			return x.IsNil(), false
		case *ssa.MakeSlice:
			if k, ok := constInt(x.Len); ok && k == 0 {
				return true, false
			}
			return false, true
		case *ssa.Slice:
			// make([]T, 0, n) compiles to a slice of a fresh array
			if k, ok := constInt(x.High); ok && k == 0 {
				return true, false
			}
			return false, true
		case *ssa.Phi:
			for _, e := range x.Edges {
				e1, f1 := grownLeaf(e, seen)
				empty, fixed = empty || e1, fixed || f1
			}
			return
		case *ssa.Call:
			if bi, ok := x.Call.Value.(*ssa.Builtin); ok && bi.Name() == "append" {
				return grownLeaf(x.Call.Args[0], seen)
			}
			return false, true
		}
		return false, true
	}
	grownResult := func(sc *ssa.Function, idx int) bool {
		if sc == nil || len(sc.Blocks) == 0 || !p.InModule(pkgOf(sc)) {
			return false
		}
		any := false
		for _, r := range returnsOf(sc) {
			if idx >= len(r.Results) {
				continue
			}
			rv := r.Results[idx]
			if c, ok := rv.(*ssa.Const); ok && c.IsNil() {
				continue // the error returns
			}
			e, f := grownLeaf(rv, map[ssa.Value]bool{})
			if f || !e {
				return false
			}
			any = true
			// the function looks at the length of what it returns
			for _, b := range sc.Blocks {
				if ifi, ok := b.Instrs[len(b.Instrs)-1].(*ssa.If); ok {
					if bo, ok := ifi.Cond.(*ssa.BinOp); ok {
						for _, side := range []ssa.Value{bo.X, bo.Y} {
							if c, ok := stripConv(side).(*ssa.Call); ok {
								if bi, ok := c.Call.Value.(*ssa.Builtin); ok && bi.Name() == "len" && throughPhis(rv, c.Call.Args[0]) {
									return false
								}
							}
						}
					}
				}
			}
		}
		return any
	}
	for _, fn := range p.Funcs {
		for _, b := range fn.Blocks {
			for _, in := range b.Instrs {
				st, ok := in.(*ssa.Store)
				if !ok {
					continue
				}
				tn, f, _ := p.fieldAddr(st.Addr)
				if tn == "" {
					continue
				}
				if _, isSlice := st.Val.Type().Underlying().(*types.Slice); !isSlice {
					continue
				}
				var call *ssa.Call
				idx := 0
				switch x := stripConv(st.Val).(type) {
				case *ssa.Call:
					call = x
				case *ssa.Extract:
					call, _ = x.Tuple.(*ssa.Call)
					idx = x.Index
				}
				if call != nil && grownResult(call.Common().StaticCallee(), idx) {
					grown[fkey{strings.TrimPrefix(tn, "*"), f}] = true
				}
			}
		}
	}
	candidate := func(tn, f string) bool {
		tn = strings.TrimPrefix(tn, "*")
		if _, isWire := t.wire[tn]; isWire {
			return true
		}
		k := fkey{tn, f}
		return (appendOnly[k] && !other[k]) || grown[k]
	}
	// functions that test the length of T.F in a branch condition (range loop conditions excepted)
	testsLen := func(fn *ssa.Function, tn, f string) bool {
		for _, b := range fn.Blocks {
			ifi, ok := b.Instrs[len(b.Instrs)-1].(*ssa.If)
			if !ok {
				continue
			}
			bo, ok := ifi.Cond.(*ssa.BinOp)
			if !ok {
				continue
			}
			for i, side := range []ssa.Value{bo.X, bo.Y} {
				call, ok := stripConv(side).(*ssa.Call)
				if !ok {
					continue
				}
				bi, ok := call.Call.Value.(*ssa.Builtin)
				if !ok || bi.Name() != "len" {
					continue
				}
				t2, f2, _ := p.fieldLoad(call.Call.Args[0])
				if strings.TrimPrefix(t2, "*") != tn || f2 != f {
					continue
				}
				// `i+1 < len(list)` of a range loop is not a test of emptiness for the code after the loop
				otherSide := bo.Y
				if i == 1 {
					otherSide = bo.X
				}
				if _, isK := otherSide.(*ssa.Const); !isK {
					continue
				}
				return true
			}
		}
		return false
	}
	var calleeTests func(fn *ssa.Function, tn, f string, depth int, seen map[*ssa.Function]bool) bool
	calleeTests = func(fn *ssa.Function, tn, f string, depth int, seen map[*ssa.Function]bool) bool {
		if depth > 3 || seen[fn] {
			return false
		}
		seen[fn] = true
		for _, b := range fn.Blocks {
			for _, in := range b.Instrs {
				ci, ok := in.(ssa.CallInstruction)
				if !ok {
					continue
				}
				sc := ci.Common().StaticCallee()
				if sc == nil || len(sc.Blocks) == 0 || !p.InModule(pkgOf(sc)) {
					continue
				}
				if testsLen(sc, tn, f) || calleeTests(sc, tn, f, depth+1, seen) {
					return true
				}
			}
		}
		return false
	}
	for _, fn := range p.Funcs {
		n := map[string]int{}
		for _, b := range fn.Blocks {
			for _, in := range b.Instrs {
				ia, ok := in.(*ssa.IndexAddr)
				if !ok {
					continue
				}
				if _, isSlice := ia.X.Type().Underlying().(*types.Slice); !isSlice {
					continue
				}
				k, isK := constInt(ia.Index)
				if !isK {
					continue
				}
				tn, f, _ := p.fieldLoad(ia.X)
				if tn == "" || !candidate(tn, f) {
					continue
				}
				tn = strings.TrimPrefix(tn, "*")
				base := fmt.Sprintf("%s %s.%s", p.FName(fn), tn, f)
				n[base]++
				key := fmt.Sprintf("%s[%d]#%d", base, k, n[base])
				if why, ok := c11ListExceptions[base]; ok {
					out = append(out, gFinding{Key: key, Pos: p.Pos(ia.Pos()), OK: true, Detail: "exception: " + why})
					continue
				}
				// by construction: the list was stored with a known length just before
				if l, ok := ia.X.(*ssa.UnOp); ok {
					if v := p.lastStoreBefore(l); v != nil && staticLenAtLeast(v, k+1) {
						out = append(out, gFinding{Key: key, Pos: p.Pos(ia.Pos()), OK: true, Detail: "stored with a fixed length just before"})
						continue
					}
				}
				ok2 := testsLen(fn, tn, f) || calleeTests(fn, tn, f, 0, map[*ssa.Function]bool{})
				out = append(out, gFinding{Key: key, Pos: p.Pos(ia.Pos()), OK: ok2,
					Detail: fmt.Sprintf("element %d of %s.%s is taken, a list that is filled from the input and may be empty; neither this function nor one it obtained the record from compares its length with a constant: an input without such an element makes this panic", k, tn, f)})
			}
		}
	}
	return out
}
