package main

import (
	"fmt"
	"go/ast"
	"go/constant"
	"go/token"
	"go/types"
	"sort"
	"strings"

	"golang.org/x/tools/go/packages"
)

// R11s: cursor loops advance.
//
// A cursor loop is a `for` statement without a post statement whose condition compares an
// integer local variable (the cursor) with a bound: `for i := 0; i < len(x); { ... }`. Such a
// loop terminates only if every way round the body moves the cursor up or the bound down; a
// way round that does neither is a hang on that input (C11: runaway resource use). The rule
// walks the body's statement tree (no execution, no arithmetic beyond constants) and demands
// on every path to a `continue` or to the end of the body one of:
//   - i++ / i += positive constant / i = i + positive constant
//   - X = append(X[:i], X[i+1:]...) when the bound is len(X) (the element under the cursor is removed)
//   - i = j where j was set to i + step in the same body, step a positive constant (or a local
//     that starts at a positive constant and loses less than that by its decrements), j is
//     otherwise only clamped down to the bound (`if j > B { j = B }`, with the loop testing i < B),
//     and every other reduction of j stands behind a test that keeps it above the cursor
//     (`j > i+1`, `j-1 > i`).
//
// Anything else that writes the cursor is reported as not provably advancing.
func cursorLoops(p *Prog) []gFinding {
	var out []gFinding
	pks := append([]*packages.Package(nil), p.Roots...)
	sort.Slice(pks, func(i, j int) bool { return pks[i].PkgPath < pks[j].PkgPath })
	for _, pk := range pks {
		if pk.Types == nil || pk.TypesInfo == nil {
			continue
		}
		for _, f := range pk.Syntax {
			fname := p.Fset.Position(f.Pos()).Filename
			if strings.HasSuffix(fname, "_test.go") {
				continue
			}
			for _, d := range f.Decls {
				fd, ok := d.(*ast.FuncDecl)
				if !ok || fd.Body == nil {
					continue
				}
				name := fd.Name.Name
				if fd.Recv != nil && len(fd.Recv.List) > 0 {
					name = "(" + types.ExprString(fd.Recv.List[0].Type) + ")." + name
				}
				k := 0
				ast.Inspect(fd.Body, func(n ast.Node) bool {
					fs, ok := n.(*ast.ForStmt)
					if !ok || fs.Post != nil || fs.Cond == nil {
						return true
					}
					iv, bound, strict := cursorOf(pk.TypesInfo, fs.Cond)
					if iv == nil {
						return true
					}
					k++
					l := &curLoop{info: pk.TypesInfo, iv: iv, bound: bound, strict: strict, body: fs.Body, fset: p.Fset}
					falls, prog := l.walk(fs.Body.List, false, nil)
					if falls && !prog {
						l.bad = append(l.bad, fmt.Sprintf("the body can reach its end at line %d without moving %s", p.Fset.Position(fs.Body.Rbrace).Line, iv.Name()))
					}
					key := fmt.Sprintf("%s.%s cursor-loop#%d %s", pk.Types.Name(), name, k, iv.Name())
					fd := gFinding{Key: key, Pos: p.Pos(fs.Pos()), OK: len(l.bad) == 0}
					if fd.OK {
						fd.Detail = fmt.Sprintf("every way round the body advances %s or shrinks %s", iv.Name(), types.ExprString(bound))
					} else {
						fd.Detail = "a cursor loop that is not shown to advance on every way round its body (hang on that input): " + strings.Join(l.bad, "; ")
					}
					out = append(out, fd)
					return true
				})
			}
		}
	}
	return out
}

type curLoop struct {
	info   *types.Info
	fset   *token.FileSet
	iv     *types.Var
	bound  ast.Expr
	strict bool
	body   *ast.BlockStmt
	bad    []string
}

// cursorOf recognises `i < B`, `i <= B`, `B > i`, `B >= i` (possibly the first conjunct of &&) with i a local integer variable.
func cursorOf(info *types.Info, cond ast.Expr) (*types.Var, ast.Expr, bool) {
	cond = ast.Unparen(cond)
	be, ok := cond.(*ast.BinaryExpr)
	if !ok {
		return nil, nil, false
	}
	if be.Op == token.LAND {
		v, b, s := cursorOf(info, be.X)
		if v == nil {
			v, b, s = cursorOf(info, be.Y)
		}
		if v != nil && lowerBounded(info, cond, v) {
			return nil, nil, false // `v < B && v > A`: a walk down towards A, not a cursor loop
		}
		return v, b, s
	}
	var ie, b ast.Expr
	switch be.Op {
	case token.LSS, token.LEQ:
		ie, b = be.X, be.Y
	case token.GTR, token.GEQ:
		ie, b = be.Y, be.X
	default:
		return nil, nil, false
	}
	id, ok := ast.Unparen(ie).(*ast.Ident)
	if !ok {
		return nil, nil, false
	}
	v, _ := info.Uses[id].(*types.Var)
	if v == nil || v.IsField() || v.Parent() == nil || v.Parent() == v.Pkg().Scope() {
		return nil, nil, false
	}
	if bt, ok := v.Type().Underlying().(*types.Basic); !ok || bt.Info()&types.IsInteger == 0 {
		return nil, nil, false
	}
	return v, b, be.Op == token.LSS || be.Op == token.GTR
}

func (l *curLoop) isVar(e ast.Expr, v *types.Var) bool {
	id, ok := ast.Unparen(e).(*ast.Ident)
	if !ok {
		return false
	}
	if o := l.info.Uses[id]; o == v {
		return true
	}
	return l.info.Defs[id] == v
}

func (l *curLoop) varOf(e ast.Expr) *types.Var {
	id, ok := ast.Unparen(e).(*ast.Ident)
	if !ok {
		return nil
	}
	if v, ok := l.info.Uses[id].(*types.Var); ok {
		return v
	}
	v, _ := l.info.Defs[id].(*types.Var)
	return v
}

func (l *curLoop) posConst(e ast.Expr) (int64, bool) {
	tv, ok := l.info.Types[e]
	if !ok || tv.Value == nil || tv.Value.Kind() != constant.Int {
		return 0, false
	}
	n, exact := constant.Int64Val(tv.Value)
	return n, exact && n > 0
}

func (l *curLoop) line(n ast.Node) int { return l.fset.Position(n.Pos()).Line }

// walk returns whether the list can fall through and whether the cursor has provably moved then.
func (l *curLoop) walk(stmts []ast.Stmt, prog bool, sw *[]bool) (bool, bool) {
	for _, s := range stmts {
		falls, p2 := l.stmt(s, prog, sw)
		if !falls {
			return false, p2
		}
		prog = p2
	}
	return true, prog
}

func (l *curLoop) stmt(s ast.Stmt, prog bool, sw *[]bool) (bool, bool) {
	switch s := s.(type) {
	case *ast.BlockStmt:
		return l.walk(s.List, prog, sw)
	case *ast.LabeledStmt:
		return l.stmt(s.Stmt, prog, sw)
	case *ast.ReturnStmt:
		return false, prog
	case *ast.ExprStmt:
		if call, ok := s.X.(*ast.CallExpr); ok {
			if id, ok := call.Fun.(*ast.Ident); ok && id.Name == "panic" {
				if _, isB := l.info.Uses[id].(*types.Builtin); isB {
					return false, prog
				}
			}
		}
		return true, prog
	case *ast.BranchStmt:
		switch s.Tok {
		case token.CONTINUE:
			if s.Label != nil {
				l.bad = append(l.bad, fmt.Sprintf("labelled continue at line %d (not followed)", l.line(s)))
				return false, prog
			}
			if !prog {
				l.bad = append(l.bad, fmt.Sprintf("`continue` at line %d is reachable without moving %s", l.line(s), l.iv.Name()))
			}
			return false, prog
		case token.BREAK:
			if s.Label == nil && sw != nil {
				*sw = append(*sw, prog)
			}
			return false, prog
		case token.GOTO:
			l.bad = append(l.bad, fmt.Sprintf("goto at line %d (not followed)", l.line(s)))
			return false, prog
		}
		return true, prog // fallthrough: handled as falling into the next clause conservatively by the switch code
	case *ast.IncDecStmt:
		if l.isVar(s.X, l.iv) {
			if s.Tok == token.INC {
				return true, true
			}
			l.bad = append(l.bad, fmt.Sprintf("%s-- at line %d", l.iv.Name(), l.line(s)))
		}
		return true, prog
	case *ast.AssignStmt:
		return true, l.assign(s, prog)
	case *ast.IfStmt:
		f1, p1 := l.walk(s.Body.List, prog, sw)
		f2, p2 := true, prog
		if s.Else != nil {
			f2, p2 = l.stmt(s.Else, prog, sw)
		}
		switch {
		case f1 && f2:
			return true, p1 && p2
		case f1:
			return true, p1
		case f2:
			return true, p2
		}
		return false, prog
	case *ast.SwitchStmt:
		return l.clauses(s.Body, prog)
	case *ast.TypeSwitchStmt:
		return l.clauses(s.Body, prog)
	case *ast.ForStmt:
		l.inner(s.Body)
		return true, prog
	case *ast.RangeStmt:
		l.inner(s.Body)
		return true, prog
	case *ast.SelectStmt:
		l.inner(s.Body)
		return true, prog
	}
	return true, prog
}

// clauses: a switch falls through with progress only if every clause (and the implicit empty
// default) does; an unlabelled break inside leaves the switch with the progress made so far.
func (l *curLoop) clauses(body *ast.BlockStmt, prog bool) (bool, bool) {
	var exits []bool
	hasDefault := false
	for _, c := range body.List {
		cc, ok := c.(*ast.CaseClause)
		if !ok {
			continue
		}
		if cc.List == nil {
			hasDefault = true
		}
		var brk []bool
		list := cc.Body
		ft := false
		if n := len(list); n > 0 {
			if b, ok := list[n-1].(*ast.BranchStmt); ok && b.Tok == token.FALLTHROUGH {
				ft = true
				list = list[:n-1]
			}
		}
		f, p := l.walk(list, prog, &brk)
		if f {
			if ft {
				p = p && prog // the next clause is analysed from `prog`; keep the weaker fact
			}
			exits = append(exits, p)
		}
		exits = append(exits, brk...)
	}
	if !hasDefault {
		exits = append(exits, prog)
	}
	if len(exits) == 0 {
		return false, prog
	}
	all := true
	for _, e := range exits {
		all = all && e
	}
	return true, all
}

// inner: a nested loop may run zero times, so it proves nothing; it must not lower the cursor.
func (l *curLoop) inner(body *ast.BlockStmt) {
	ast.Inspect(body, func(n ast.Node) bool {
		switch n := n.(type) {
		case *ast.FuncLit:
			return false
		case *ast.IncDecStmt:
			if l.isVar(n.X, l.iv) && n.Tok == token.DEC {
				l.bad = append(l.bad, fmt.Sprintf("%s-- in a nested loop at line %d", l.iv.Name(), l.line(n)))
			}
		case *ast.AssignStmt:
			for _, lhs := range n.Lhs {
				if l.isVar(lhs, l.iv) && !(len(n.Lhs) == 1 && n.Tok == token.ADD_ASSIGN && l.isPos(n.Rhs[0])) {
					l.bad = append(l.bad, fmt.Sprintf("%s is rewritten in a nested loop at line %d", l.iv.Name(), l.line(n)))
				}
			}
		}
		return true
	})
}

func (l *curLoop) isPos(e ast.Expr) bool { _, ok := l.posConst(e); return ok }

func (l *curLoop) assign(s *ast.AssignStmt, prog bool) bool {
	// removal of the element under the cursor: X = append(X[:i], X[i+1:]...) with bound len(X)
	if len(s.Lhs) == 1 && len(s.Rhs) == 1 && s.Tok == token.ASSIGN && l.removesAtCursor(s.Lhs[0], s.Rhs[0]) {
		return true
	}
	for _, lhs := range s.Lhs {
		if !l.isVar(lhs, l.iv) {
			continue
		}
		if len(s.Lhs) != 1 || len(s.Rhs) != 1 {
			l.bad = append(l.bad, fmt.Sprintf("%s is written by a multiple assignment at line %d", l.iv.Name(), l.line(s)))
			return prog
		}
		rhs := ast.Unparen(s.Rhs[0])
		switch s.Tok {
		case token.ADD_ASSIGN:
			if l.isPos(rhs) {
				return true
			}
			l.bad = append(l.bad, fmt.Sprintf("%s += %s at line %d: the step is not a positive constant", l.iv.Name(), types.ExprString(rhs), l.line(s)))
			return prog
		case token.ASSIGN:
			if be, ok := rhs.(*ast.BinaryExpr); ok && be.Op == token.ADD {
				if (l.isVar(be.X, l.iv) && l.isPos(be.Y)) || (l.isVar(be.Y, l.iv) && l.isPos(be.X)) {
					return true
				}
			}
			if j := l.varOf(rhs); j != nil && j != l.iv {
				if why := l.advanceVar(j, s.Pos()); why == "" {
					return true
				} else {
					l.bad = append(l.bad, fmt.Sprintf("%s = %s at line %d, and %s", l.iv.Name(), j.Name(), l.line(s), why))
					return prog
				}
			}
		}
		l.bad = append(l.bad, fmt.Sprintf("%s %s %s at line %d is not a recognised advance", l.iv.Name(), s.Tok, types.ExprString(rhs), l.line(s)))
		return prog
	}
	return prog
}

func (l *curLoop) removesAtCursor(lhs, rhs ast.Expr) bool {
	call, ok := ast.Unparen(rhs).(*ast.CallExpr)
	if !ok || len(call.Args) != 2 || call.Ellipsis == token.NoPos {
		return false
	}
	if id, ok := call.Fun.(*ast.Ident); !ok || id.Name != "append" {
		return false
	}
	x := types.ExprString(lhs)
	if types.ExprString(l.bound) != "len("+x+")" {
		return false
	}
	a, ok1 := ast.Unparen(call.Args[0]).(*ast.SliceExpr)
	b, ok2 := ast.Unparen(call.Args[1]).(*ast.SliceExpr)
	if !ok1 || !ok2 || types.ExprString(a.X) != x || types.ExprString(b.X) != x {
		return false
	}
	if a.Low != nil || a.High == nil || !l.isVar(a.High, l.iv) || b.High != nil || b.Low == nil {
		return false
	}
	be, ok := ast.Unparen(b.Low).(*ast.BinaryExpr)
	return ok && be.Op == token.ADD && l.isVar(be.X, l.iv) && l.isPos(be.Y)
}

// advanceVar: "" when j is provably above the cursor where `i = j` (at pos `use`) takes it.
func (l *curLoop) advanceVar(j *types.Var, use token.Pos) string {
	defs := 0
	why := ""
	note := func(f string, a ...any) {
		if why == "" {
			why = fmt.Sprintf(f, a...)
		}
	}
	var stack []ast.Node
	ast.Inspect(l.body, func(n ast.Node) bool {
		if n == nil {
			stack = stack[:len(stack)-1]
			return true
		}
		stack = append(stack, n)
		switch n := n.(type) {
		case *ast.IncDecStmt:
			if l.isVar(n.X, j) && n.Tok == token.DEC && !l.keptAbove(j, stack) {
				note("%s-- at line %d is not behind a test that keeps %s above %s", j.Name(), l.line(n), j.Name(), l.iv.Name())
			}
		case *ast.AssignStmt:
			for k, lhs := range n.Lhs {
				if !l.isVar(lhs, j) {
					continue
				}
				if len(n.Lhs) != len(n.Rhs) {
					note("%s is written by a call at line %d", j.Name(), l.line(n))
					continue
				}
				rhs := ast.Unparen(n.Rhs[k])
				switch n.Tok {
				case token.DEFINE, token.ASSIGN:
					if be, ok := rhs.(*ast.BinaryExpr); ok && be.Op == token.ADD {
						var step ast.Expr
						if l.isVar(be.X, l.iv) {
							step = be.Y
						} else if l.isVar(be.Y, l.iv) {
							step = be.X
						}
						if step != nil {
							if n.Pos() > use {
								note("%s is only set after its use", j.Name())
							}
							if !l.posStep(step) {
								note("the step %s of %s at line %d is not provably positive", types.ExprString(step), j.Name(), l.line(n))
							}
							defs++
							continue
						}
					}
					if l.clamp(j, rhs, stack) {
						continue
					}
					note("%s = %s at line %d is neither cursor+step nor a clamp to the loop bound", j.Name(), types.ExprString(rhs), l.line(n))
				case token.ADD_ASSIGN:
					if !l.isPos(rhs) {
						note("%s += %s at line %d", j.Name(), types.ExprString(rhs), l.line(n))
					}
				default:
					if !(n.Tok == token.SUB_ASSIGN && l.keptAbove(j, stack) && l.isOne(rhs)) {
						note("%s %s %s at line %d can bring %s down to %s", j.Name(), n.Tok, types.ExprString(rhs), l.line(n), j.Name(), l.iv.Name())
					}
				}
			}
		case *ast.UnaryExpr:
			if n.Op == token.AND && l.isVar(n.X, j) {
				note("the address of %s is taken at line %d", j.Name(), l.line(n))
			}
		}
		return true
	})
	if why == "" && defs == 0 {
		why = fmt.Sprintf("%s is not set to %s + step inside the loop body", j.Name(), l.iv.Name())
	}
	return why
}

func (l *curLoop) isOne(e ast.Expr) bool { n, ok := l.posConst(e); return ok && n == 1 }

// clamp: `j = B` directly inside `if j > B` (B the loop bound, the loop testing i < B), or j = min(j, B).
func (l *curLoop) clamp(j *types.Var, rhs ast.Expr, stack []ast.Node) bool {
	if !l.strict {
		return false
	}
	b := types.ExprString(l.bound)
	if call, ok := rhs.(*ast.CallExpr); ok && len(call.Args) == 2 {
		if id, ok := call.Fun.(*ast.Ident); ok && id.Name == "min" {
			if _, isB := l.info.Uses[id].(*types.Builtin); isB {
				x, y := call.Args[0], call.Args[1]
				return (l.isVar(x, j) && types.ExprString(y) == b) || (l.isVar(y, j) && types.ExprString(x) == b)
			}
		}
	}
	if types.ExprString(rhs) != b {
		return false
	}
	for k := len(stack) - 2; k >= 0; k-- {
		if is, ok := stack[k].(*ast.IfStmt); ok {
			be, ok := ast.Unparen(is.Cond).(*ast.BinaryExpr)
			if !ok {
				return false
			}
			switch be.Op {
			case token.GTR, token.GEQ:
				return l.isVar(be.X, j) && types.ExprString(be.Y) == b
			case token.LSS, token.LEQ:
				return l.isVar(be.Y, j) && types.ExprString(be.X) == b
			}
			return false
		}
	}
	return false
}

// keptAbove: an enclosing if/for condition has a conjunct j > i+K (K >= 1), j-1 > i or j >= i+K (K >= 2).
func (l *curLoop) keptAbove(j *types.Var, stack []ast.Node) bool {
	for k := len(stack) - 2; k >= 0; k-- {
		var cond ast.Expr
		switch s := stack[k].(type) {
		case *ast.IfStmt:
			cond = s.Cond
		case *ast.ForStmt:
			cond = s.Cond
		}
		if cond != nil && l.conjAbove(j, cond) {
			return true
		}
		if stack[k] == ast.Node(l.body) {
			break
		}
	}
	return false
}

func (l *curLoop) conjAbove(j *types.Var, e ast.Expr) bool {
	be, ok := ast.Unparen(e).(*ast.BinaryExpr)
	if !ok {
		return false
	}
	if be.Op == token.LAND {
		return l.conjAbove(j, be.X) || l.conjAbove(j, be.Y)
	}
	x, y, op := be.X, be.Y, be.Op
	if op == token.LSS || op == token.LEQ {
		x, y = y, x
		if op == token.LSS {
			op = token.GTR
		} else {
			op = token.GEQ
		}
	}
	if op != token.GTR && op != token.GEQ {
		return false
	}
	need := int64(1)
	if op == token.GEQ {
		need = 2
	}
	// j > i + K
	if l.isVar(x, j) {
		if s, ok := ast.Unparen(y).(*ast.BinaryExpr); ok && s.Op == token.ADD {
			if l.isVar(s.X, l.iv) {
				n, ok := l.posConst(s.Y)
				return ok && n >= need
			}
			if l.isVar(s.Y, l.iv) {
				n, ok := l.posConst(s.X)
				return ok && n >= need
			}
		}
		return false
	}
	// j - K > i
	if s, ok := ast.Unparen(x).(*ast.BinaryExpr); ok && s.Op == token.SUB && l.isVar(s.X, j) && l.isVar(y, l.iv) {
		n, ok := l.posConst(s.Y)
		return ok && n >= need
	}
	return false
}

// posStep: a positive constant, or a local that is set (in the loop body) only to positive
// constants and reduced, outside nested loops, by less in total than the smallest of them.
func (l *curLoop) posStep(e ast.Expr) bool {
	if l.isPos(e) {
		return true
	}
	g := l.varOf(e)
	if g == nil || g.IsField() {
		return false
	}
	minInit := int64(-1)
	var dec int64
	ok := true
	var stack []ast.Node
	ast.Inspect(l.body, func(n ast.Node) bool {
		if n == nil {
			stack = stack[:len(stack)-1]
			return true
		}
		stack = append(stack, n)
		inLoop := false
		for _, a := range stack[:len(stack)-1] {
			switch a.(type) {
			case *ast.ForStmt, *ast.RangeStmt, *ast.FuncLit:
				inLoop = true
			}
		}
		switch n := n.(type) {
		case *ast.IncDecStmt:
			if l.isVar(n.X, g) && n.Tok == token.DEC {
				if inLoop {
					ok = false
				}
				dec++
			}
		case *ast.UnaryExpr:
			if n.Op == token.AND && l.isVar(n.X, g) {
				ok = false
			}
		case *ast.AssignStmt:
			for k, lhs := range n.Lhs {
				if !l.isVar(lhs, g) {
					continue
				}
				if len(n.Lhs) != len(n.Rhs) {
					ok = false
					continue
				}
				switch n.Tok {
				case token.DEFINE, token.ASSIGN:
					v, pos := l.posConst(n.Rhs[k])
					if !pos {
						ok = false
					} else if minInit < 0 || v < minInit {
						minInit = v
					}
				case token.SUB_ASSIGN:
					v, pos := l.posConst(n.Rhs[k])
					if !pos || inLoop {
						ok = false
					}
					dec += v
				case token.ADD_ASSIGN:
					if !l.isPos(n.Rhs[k]) {
						ok = false
					}
				default:
					ok = false
				}
			}
		}
		return true
	})
	return ok && minInit > 0 && minInit-dec > 0
}

// lowerBounded: some conjunct of cond tests v from below (v > A, v >= A, A < v, A <= v).
func lowerBounded(info *types.Info, cond ast.Expr, v *types.Var) bool {
	be, ok := ast.Unparen(cond).(*ast.BinaryExpr)
	if !ok {
		return false
	}
	if be.Op == token.LAND {
		return lowerBounded(info, be.X, v) || lowerBounded(info, be.Y, v)
	}
	var side ast.Expr
	switch be.Op {
	case token.GTR, token.GEQ:
		side = be.X
	case token.LSS, token.LEQ:
		side = be.Y
	default:
		return false
	}
	id, ok := ast.Unparen(side).(*ast.Ident)
	return ok && info.Uses[id] == v
}
