package main

// C01 — every signature relic produces verifies, for every format, key and digest.
//
// That a produced artifact verifies is behavioural and not decided. Decided: the requested
// digest reaches every signer and is the one it uses, unsupported combinations are refused
// before anything is signed, the standalone and the remote command run the same client-side
// stages in the same order, and every PKCS#7 signature is self-verified before it leaves.

import (
	"fmt"
	"go/token"
	"go/types"
	"sort"
	"strings"

	"golang.org/x/tools/go/ssa"
)

func init() {
	register(&propDef{
		ID: "C01",
		Meta: propMeta{
			Explanation: "Decides structural necessary conditions (nothing is executed): (R01a) requested-digest plumbing: every registered Signer.Sign function (or the helpers of its own package it calls) reads SignOpts.Hash, and no crypto.Hash constant is passed as an argument, returned, stored or merged into a variable in those functions outside a frozen, reasoned table of format-mandated digests; the server parses the digest parameter through x509tools.HashByName, refuses an unknown name, and hands exactly that value to signinit.Init, which stores it in SignOpts.Hash and in the audit record; the remote command sends the digest name it validated; (R01b) refusal before signing: serveSign calls through Signer.Sign only after the signer lookup, the digest lookup and the flag parsing succeeded; signinit.Init refuses a key without the certificate kind the signer needs before it builds SignOpts; both commands refuse a type without a Sign function before opening the output; (R01c) the standalone and the remote sign command perform the same client-side stages in the same order on every success path (type detection, flags, open for patching, optional is-signed probe and rewind, transform, sign or remote call, apply, fix-up), and both apply the result through the same Transformer; (R01d) every signer that builds a PKCS#7 signature returns it through pkcs9 TimestampAndMarshal / the builder's self-verification (shared with C16 R16e); (R01e) side data: the extended MSI digest the client stores next to the signature is nil or PrehashMSI(this file, SignOpts.Hash) and nothing else; the text size a PowerShell digest reports (the patch offset) is a sum of lengths of lines read from the input and depends on no other call; no memory handed to a sync.Pool is also returned uncopied (zero instances, positive control testdata/ctl/poolesc). (R01f) every field of the OnePassSignature packet written in front of an inline PGP message (type, hash, key algorithm, key id) is copied from the same field of the signature packet it announces; (R01g) in LoadTokenCertificates the ReadFile of the configured certificate path is not control-dependent on the certificate blob the token returned, so the configured certificate wins; (R01h) the in-place patch path truncates to the end of its last patch (shared with C08 R08g): re-signing with a shorter signature yields a file relic's verifier accepts. (R01i) xmldsig.Sign calls RemoveElements(\"Signature\") before hashCanon, so re-signing a signed manifest digests the document without the old signature; (R01j) the packet header written in front of an inline PGP literal switches length forms at 192 and 8384, so relic's own reader (and every other) parses messages of every size. (R01k) no function writes an element through a slice header it loaded from a field of an object before calling something on that object that may assign the field (append-and-store in the callee, followed to depth 3 with constant boolean arguments applied): the chain addStream threads through the sector table lands in the table the file is written from; positive control ctl/stale. (R01m) the CFB rules of C03 R03c and C18 R18e: AddFile removes exactly the name it adds, DeleteFile frees only the matched stream's chain, and every table choice uses one cutoff predicate, so a re-signed MSI stays readable; (R01n) the span removed for an old _gpg member is even (C03 R03h). (R01l) signdeb.Sign skips every _gpg* member when it lists what the new signature covers (C08 R08b).",
			NotDecided:  "that a produced artifact verifies; correctness of digests and offsets for any input layout; key-type coverage (RSA/ECDSA/PGP) of each signer; equality of server-side and standalone output bytes.",
			Assumptions: []string{"the signer registry consists of the signers.Signer literals passed to signers.Register"},
		},
		Run: runC01,
	})
}

func isCryptoHash(t types.Type) bool { return t.String() == "crypto.Hash" }

func runC01(c *Ctx) {
	c.Rule("R01a", "the requested digest reaches every signer and is the only digest it signs with", 22)
	c.Rule("R01b", "unsupported type, digest, flags or certificate kind are refused before anything is signed", 7)
	c.Rule("R01c", "standalone and remote sign commands run the same client-side stages in the same order", 6)
	c.Rule("R01d", "PKCS#7-producing signers return through the self-verifying marshal", 8)
	c.Rule("R01e", "data written next to a signature is computed from this input with the requested digest; patch offsets derive from input byte counts; results do not alias pooled memory", 2)
	c01Digest(c)
	c01Refusal(c)
	c01Stages(c)
	c01SelfVerify(c)
	c01SideData(c)
	c01Round2(c)
}

// c01RuleDigest: the rule id c01Digest reports under (R01a; C06 shares it as R06h).
var c01RuleDigest = "R01a"

func c01Digest(c *Ctx) {
	p := c.P
	reg := p.registeredSignerFuncs("Sign")
	type ent struct {
		fn   *ssa.Function
		name string
	}
	var ents []ent
	for f, n := range reg {
		ents = append(ents, ent{f, n})
	}
	sort.Slice(ents, func(i, j int) bool { return ents[i].name < ents[j].name })
	if len(ents) < 18 {
		c.Undecided(c01RuleDigest, "signer registry", "-", fmt.Sprintf("only %d Signer.Sign registrations resolved (18+ confirmed by reading)", len(ents)))
	}
	for _, e := range ents {
		c.Analysed(p.FName(e.fn))
		// the function and the same-package functions it reaches
		pk := pkgOf(e.fn)
		var scope []*ssa.Function
		for f := range p.moduleReachOpt([]*ssa.Function{e.fn}, false) {
			if pkgOf(f) == pk {
				scope = append(scope, f)
			}
		}
		sort.Slice(scope, func(i, j int) bool { return p.FName(scope[i]) < p.FName(scope[j]) })
		reads := false
		for _, f := range scope {
			for _, b := range f.Blocks {
				for _, in := range b.Instrs {
					switch x := in.(type) {
					case *ssa.Field:
						if tn, fld, _ := p.fieldLoad(x); tn == "signers.SignOpts" && fld == "Hash" {
							reads = true
						}
					case *ssa.UnOp:
						if x.Op == token.MUL {
							if tn, fld, _ := p.fieldAddr(x.X); tn == "signers.SignOpts" && fld == "Hash" {
								reads = true
							}
						}
					case ssa.CallInstruction:
						if n := p.calleeName(x.Common()); n == "(signers.SignOpts).HashFunc" || n == "(*signers.SignOpts).HashFunc" {
							reads = true
						}
						// handing the whole options value to a library that reads Hash itself
						for _, a := range x.Common().Args {
							if strings.HasSuffix(a.Type().String(), "/signers.SignOpts") {
								if g := x.Common().StaticCallee(); g != nil && pkgOf(g) != pk && c01ReadsHash(p, g) {
									reads = true
								}
							}
						}
					}
				}
			}
		}
		c.Check(reads, c01RuleDigest, "signer "+e.name+" reads the requested digest", p.Pos(e.fn.Pos()), "SignOpts.Hash is read", "the Sign function of signer "+e.name+" (and the helpers of its package) never reads SignOpts.Hash: whatever digest the caller requests, the signature is made with a built-in one, and the audit record names a digest that was not used")
		// constants
		n := 0
		for _, f := range scope {
			for _, b := range f.Blocks {
				for _, in := range b.Instrs {
					ci, ok := in.(ssa.CallInstruction)
					if !ok {
						continue
					}
					for ai, a := range ci.Common().Args {
						k, isK := a.(*ssa.Const)
						if !isK || !isCryptoHash(k.Type()) {
							continue
						}
						n++
						key := fmt.Sprintf("%s passes constant digest#%d", p.FName(f), n)
						// receiver position of a method on the constant (crypto.SHA1.New()) is a fixed-digest use as well
						_ = ai
						why, ok := c01FixedDigest[p.FName(f)]
						if ok {
							c.PassTrivial(c01RuleDigest, key, p.Pos(ci.Pos()), "exception: "+why)
						} else {
							c.Fail(c01RuleDigest, key, p.Pos(ci.Pos()), fmt.Sprintf("the digest %s is hard-coded in a call to %s on the signing path of signer %s instead of the requested SignOpts.Hash", k.Value, p.describeCall(ci), e.name))
						}
					}
				}
			}
		}
		// a digest constant that is returned, stored or merged into a variable replaces the requested one
		// just as well as one that is passed
		for _, f := range scope {
			for _, b := range f.Blocks {
				for _, in := range b.Instrs {
					var ops []ssa.Value
					what := ""
					switch x := in.(type) {
					case *ssa.Return:
						ops, what = x.Results, "returned"
					case *ssa.Store:
						ops, what = []ssa.Value{x.Val}, "stored"
					case *ssa.Phi:
						ops, what = x.Edges, "assigned to a variable"
					default:
						continue
					}
					for _, a := range ops {
						k, isK := a.(*ssa.Const)
						if !isK || !isCryptoHash(k.Type()) {
							continue
						}
						n++
						key := fmt.Sprintf("%s has a constant digest %s#%d", p.FName(f), strings.Fields(what)[0], n)
						if why, ok := c01FixedDigest[p.FName(f)]; ok {
							c.PassTrivial(c01RuleDigest, key, p.Pos(in.Pos()), "exception: "+why)
						} else {
							c.Fail(c01RuleDigest, key, p.Pos(in.Pos()), fmt.Sprintf("the digest constant %s is %s on the signing path of signer %s: where it replaces the requested SignOpts.Hash the signature is made with another digest than the one the caller asked for and the audit record names", k.Value, what, e.name))
						}
					}
				}
			}
		}
	}
	// server: digest parameter -> HashByName -> refusal -> Init
	ss := p.Func("server.(*Server).serveSign")
	if ss == nil {
		c.Undecided(c01RuleDigest, "serveSign", "-", "function not found")
	} else {
		c.Analysed(p.FName(ss))
		hb := p.callsIn(ss, "lib/x509tools.HashByName")
		inits := p.callsIn(ss, "internal/signinit.Init")
		ok := len(hb) == 1 && len(inits) == 1
		if ok {
			// Init's hash argument is the phi of the default and the parsed value
			harg := actualOfType(inits[0], "crypto.Hash")
			okDefault, okParsed := false, false
			if harg == nil {
				harg = ssa.NewConst(nil, types.Typ[types.Int]) // nothing of that type passed: neither leaf matches
			}
			for _, lf := range phiLeaves(harg, nil, map[*ssa.Phi]bool{}) {
				if lf.V == hb[0].Value() {
					okParsed = true
				} else if k, isK := lf.V.(*ssa.Const); isK && isCryptoHash(k.Type()) {
					okDefault = true
				}
			}
			ok = okDefault && okParsed
		}
		c.Check(ok, c01RuleDigest, "serveSign hands the parsed digest (or the default) to Init", p.Pos(ss.Pos()), "", "the digest given to signinit.Init is not the value parsed from the request's digest parameter")
	}
	if in := p.Func("internal/signinit.Init"); in == nil {
		c.Undecided(c01RuleDigest, "signinit.Init", "-", "function not found")
	} else {
		c.Analysed(p.FName(in))
		// the requested digest: Init's input of type crypto.Hash (a parameter, or a field of a request struct)
		hp := true
		isHashIn := func(v ssa.Value) bool { return isCryptoHash(v.Type()) && inputOfType(in, v, "crypto.Hash") }
		stored, audited := false, false
		for _, b := range in.Blocks {
			for _, x := range b.Instrs {
				if st, ok := x.(*ssa.Store); ok && hp && isHashIn(st.Val) {
					if tn, f, _ := p.fieldAddr(st.Addr); tn == "signers.SignOpts" && f == "Hash" {
						stored = true
					}
				}
				if ci, ok := x.(ssa.CallInstruction); ok && p.calleeName(ci.Common()) == "lib/audit.New" && hp {
					for _, a := range ci.Common().Args {
						if isHashIn(a) {
							audited = true
						}
					}
				}
			}
		}
		c.Check(stored && audited, c01RuleDigest, "Init puts the requested digest into SignOpts and the audit record", p.Pos(in.Pos()), "", "signinit.Init does not store its hash argument in SignOpts.Hash and audit.New: signer and audit record can disagree about the digest")
	}
	if sd := p.Func("cmdline/remotecmd.setDigestQueryParam"); sd == nil {
		c.Undecided(c01RuleDigest, "setDigestQueryParam", "-", "function not found")
	} else {
		c.Analysed(p.FName(sd))
		adds := 0
		for _, ci := range p.callsIn(sd, "(net/url.Values).Add") {
			if s, ok := constString(ci.Common().Args[1]); ok && s == "digest" && p.memKey(ci.Common().Args[2]) == "g:cmdline/shared.ArgDigest" {
				adds++
			}
		}
		gd := p.callsIn(sd, "cmdline/shared.GetDigest")
		ok := adds == 1 && len(gd) == 1
		c.Check(ok, c01RuleDigest, "remote command sends the digest name it validated", p.Pos(sd.Pos()), "", "the remote sign command does not send the --digest value (or sends it without validating it locally)")
	}
}

// c01FixedDigest: functions on a signing path that legitimately name a fixed digest.
var c01FixedDigest = map[string]string{
	"signers/vsix.calcFileName":               "the OPC signature part name is derived from a SHA-1 of the certificate by convention; it is a name, not a content digest",
	"(*signers/vsix.oxfRelationships).Append": "relationship ids are made from a SHA-1 of the target path; they are names, not content digests",
}

// c01ReadsHash: g (or what it reaches in its own package) reads SignOpts.Hash.
func c01ReadsHash(p *Prog, g *ssa.Function) bool {
	for f := range p.moduleReachOpt([]*ssa.Function{g}, false) {
		for _, b := range f.Blocks {
			for _, in := range b.Instrs {
				switch x := in.(type) {
				case *ssa.Field:
					if tn, fld, _ := p.fieldLoad(x); tn == "signers.SignOpts" && fld == "Hash" {
						return true
					}
				case *ssa.UnOp:
					if x.Op == token.MUL {
						if tn, fld, _ := p.fieldAddr(x.X); tn == "signers.SignOpts" && fld == "Hash" {
							return true
						}
					}
				}
			}
		}
	}
	return false
}

func c01Refusal(c *Ctx) {
	p := c.P
	ss := p.Func("server.(*Server).serveSign")
	if ss == nil {
		c.Undecided("R01b", "serveSign", "-", "function not found")
		return
	}
	signs := p.signerFieldCalls(ss, "Sign")
	if len(signs) != 1 {
		c.Undecided("R01b", "serveSign Signer.Sign call", p.Pos(ss.Pos()), fmt.Sprintf("%d calls through Signer.Sign found, 1 expected", len(signs)))
		return
	}
	sink := signs[0]
	guards := []Guard{
		{Name: "ByName() != nil", Match: func(f Fact) bool {
			call, _ := resultOf(f.V)
			return call != nil && f.Kind == NonNil && p.calleeName(call.Common()) == "signers.ByName"
		}},
		p.callGuard("FlagsFromQuery err == nil", []string{"(*signers.Signer).FlagsFromQuery"}, 1, IsNil, nil),
		p.callGuard("signinit.Init err == nil", []string{"internal/signinit.Init"}, 2, IsNil, nil),
	}
	for _, g := range guards {
		missing, path := p.unguardedFromEntry(ss, sink, g)
		c.Check(len(missing) == 0, "R01b", "serveSign signs only after "+g.Name, p.Pos(sink.Pos()), "", "Signer.Sign can be reached without "+g.Name, path...)
	}
	// unknown digest: on the path where a digest was named, hash != 0
	hb := p.callsIn(ss, "lib/x509tools.HashByName")
	okDigest := false
	if len(hb) == 1 {
		zero := Guard{Name: "HashByName() != 0", Match: func(f Fact) bool {
			bo, ok := f.V.(*ssa.BinOp)
			if !ok {
				return false
			}
			isCall := bo.X == hb[0].Value() || bo.Y == hb[0].Value()
			k0 := isIntConst(bo.X, 0) || isIntConst(bo.Y, 0)
			return isCall && k0 && ((bo.Op == token.EQL && f.Kind == IsFalse) || (bo.Op == token.NEQ && f.Kind == IsTrue))
		}}
		// from the HashByName call, Sign is unreachable without passing that edge
		del := passEdges(ss, zero)
		okDigest = len(del) > 0 && !reachableAfter(ss, hb[0], sink, del, nil)
	}
	c.Check(okDigest, "R01b", "serveSign refuses an unknown digest name", p.Pos(ss.Pos()), "", "after parsing a digest name that x509tools.HashByName does not know (result 0) the handler can still reach Signer.Sign")
	// Init: certificate kinds
	in := p.Func("internal/signinit.Init")
	if in == nil {
		c.Undecided("R01b", "signinit.Init", "-", "function not found")
	} else {
		nRef := 0
		// in Init, or in a helper of its package whose failure Init hands on
		hosts := []*ssa.Function{in}
		for _, b := range in.Blocks {
			for _, x := range b.Instrs {
				ci, ok := x.(ssa.CallInstruction)
				if !ok {
					continue
				}
				g := ci.Common().StaticCallee()
				if g == nil || pkgOf(g) != pkgOf(in) || len(g.Blocks) == 0 || errResultIndex(g.Signature) < 0 {
					continue
				}
				if ev := errValueOf(ci); ev != nil {
					if r, _ := p.failureReachesSuccess(in, ev); r == nil {
						hosts = append(hosts, g)
					}
				}
			}
		}
		for _, h := range hosts {
			for _, b := range h.Blocks {
				for _, x := range b.Instrs {
					if mi, ok := x.(*ssa.MakeInterface); ok && strings.HasSuffix(mi.X.Type().String(), "sigerrors.ErrNoCertificate") {
						nRef++
					}
				}
			}
		}
		// SignOpts is built only after both checks: the store of Hash is not reachable from entry avoiding both refusal tests
		c.Check(nRef == 2, "R01b", "Init refuses a key lacking the certificate kind the signer needs", p.Pos(in.Pos()), "x509 and pgp", fmt.Sprintf("%d ErrNoCertificate refusals found in signinit.Init, 2 expected (x509, pgp): signing proceeds with a nil certificate", nRef))
	}
	// both commands refuse a type that cannot sign
	for _, spec := range []string{"cmdline/token.signCmd", "cmdline/remotecmd.signCmd"} {
		fn := p.Func(spec)
		if fn == nil {
			c.Undecided("R01b", spec, "-", "function not found")
			continue
		}
		c.Analysed(p.FName(fn))
		open := p.callsIn(fn, "cmdline/shared.OpenForPatching")
		okG := false
		if len(open) == 1 {
			g := Guard{Name: "mod.Sign != nil", Match: func(f Fact) bool {
				if f.Kind != NonNil {
					return false
				}
				tn, fld, _ := p.fieldLoad(f.V)
				return tn == "signers.Signer" && fld == "Sign"
			}}
			missing, _ := p.unguardedFromEntry(fn, open[0], g)
			okG = len(missing) == 0
		}
		c.Check(okG, "R01b", p.FName(fn)+" refuses types without a Sign function before opening the output", p.Pos(fn.Pos()), "", "the command opens the file for patching without having checked that the detected type can be signed")
	}
}

// c01StageOf classifies a call as one of the client-side stages.
func c01StageOf(p *Prog, ci ssa.CallInstruction) string {
	cc := ci.Common()
	n := p.calleeName(cc)
	switch n {
	case "signers.ByFile":
		return "detect"
	case "(*signers.Signer).FlagsFromCmdline":
		return "flags"
	case "cmdline/shared.OpenForPatching":
		return "open"
	case "(*signers.Signer).IsSigned":
		return "is-signed"
	case "(*signers.Signer).GetTransform":
		return "transform"
	case "cmdline/remotecmd.CallRemote":
		return "sign"
	}
	if cc.IsInvoke() && cc.Method.Name() == "Apply" && strings.HasSuffix(cc.Value.Type().String(), "signers.Transformer") {
		return "apply"
	}
	if cc.StaticCallee() == nil && !cc.IsInvoke() {
		if tn, f, _ := p.fieldLoad(cc.Value); tn == "signers.Signer" {
			switch f {
			case "Sign":
				return "sign"
			case "Fixup":
				return "fixup"
			}
		}
	}
	return ""
}

func c01Stages(c *Ctx) {
	p := c.P
	order := []string{"detect", "flags", "open", "is-signed", "transform", "sign", "apply", "fixup"}
	rank := map[string]int{}
	for i, s := range order {
		rank[s] = i
	}
	seqs := map[string]map[string][]ssa.CallInstruction{}
	for _, spec := range []string{"cmdline/token.signCmd", "cmdline/remotecmd.signCmd"} {
		fn := p.Func(spec)
		if fn == nil {
			c.Undecided("R01c", spec, "-", "function not found")
			return
		}
		c.Analysed(p.FName(fn))
		st := map[string][]ssa.CallInstruction{}
		for _, b := range fn.Blocks {
			for _, in := range b.Instrs {
				if ci, ok := in.(ssa.CallInstruction); ok {
					if _, isDefer := in.(*ssa.Defer); isDefer {
						continue
					}
					if s := c01StageOf(p, ci); s != "" {
						st[s] = append(st[s], ci)
					}
				}
			}
		}
		seqs[spec] = st
		// every stage present exactly once
		for _, s := range order {
			c.Check(len(st[s]) == 1, "R01c", p.FName(fn)+" stage "+s, p.Pos(fn.Pos()), "present once", fmt.Sprintf("the %s stage occurs %d times in %s (once expected): the two commands no longer run the same pipeline", s, len(st[s]), p.FName(fn)))
		}
		// order: no later stage can run before an earlier one
		okOrder := true
		detail := ""
		for _, a := range order {
			for _, b := range order {
				if rank[a] >= rank[b] || len(st[a]) != 1 || len(st[b]) != 1 {
					continue
				}
				if reachableAfter(fn, st[b][0], st[a][0], nil, nil) {
					okOrder = false
					detail = fmt.Sprintf("%s can run after %s", a, b)
				}
			}
		}
		c.Check(okOrder, "R01c", p.FName(fn)+" stage order", p.Pos(fn.Pos()), strings.Join(order, " < "), "client-side stages out of order: "+detail)
		// mandatory stages lie on every success path; is-signed and fixup are conditional
		for _, s := range []string{"detect", "flags", "open", "transform", "sign", "apply"} {
			if len(st[s]) != 1 {
				continue
			}
			okAll := true
			for _, r := range p.successReturns(fn) {
				// the early "already signed" exit legitimately skips transform/sign/apply
				if avoidable(fn, st[s][0], r) {
					if len(st["is-signed"]) == 1 && !avoidable(fn, st["is-signed"][0], r) && rank[s] > rank["is-signed"] && !reachableAfter(fn, st["transform"][0], r, nil, nil) {
						continue
					}
					okAll = false
				}
			}
			c.Check(okAll, "R01c", p.FName(fn)+" stage "+s+" on every success path", p.Pos(st[s][0].Pos()), "", "the command can report success without having run the "+s+" stage")
		}
		// the transformer that produced the stream is the one that applies the result
		if len(st["transform"]) == 1 && len(st["apply"]) == 1 {
			tv := st["transform"][0].Value()
			same := dependsOn(st["apply"][0].Common().Value, func(x ssa.Value) bool {
				ex, ok := x.(*ssa.Extract)
				return ok && ex.Tuple == tv && ex.Index == 0
			})
			c.Check(same, "R01c", p.FName(fn)+" applies through the transformer it read from", p.Pos(st["apply"][0].Pos()), "", "the result is applied through a different Transformer than the one that produced the upload")
		}
		// fixup only behind its nil test
		if len(st["fixup"]) == 1 {
			g := Guard{Name: "mod.Fixup != nil", Match: func(f Fact) bool {
				if f.Kind != NonNil {
					return false
				}
				tn, fld, _ := p.fieldLoad(f.V)
				return tn == "signers.Signer" && fld == "Fixup"
			}}
			missing, _ := p.unguardedFromEntry(fn, st["fixup"][0], g)
			c.Check(len(missing) == 0, "R01c", p.FName(fn)+" fix-up behind its nil test", p.Pos(st["fixup"][0].Pos()), "", "Signer.Fixup is called without testing it for nil")
		}
	}
}

func c01SelfVerify(c *Ctx) {
	p := c.P
	// signers whose Sign path builds a PKCS#7 signature must go through TimestampAndMarshal
	reg := p.registeredSignerFuncs("Sign")
	type ent struct {
		fn   *ssa.Function
		name string
	}
	var ents []ent
	for f, n := range reg {
		ents = append(ents, ent{f, n})
	}
	sort.Slice(ents, func(i, j int) bool { return ents[i].name < ents[j].name })
	n := 0
	for _, e := range ents {
		reach := p.moduleReachOpt([]*ssa.Function{e.fn}, false)
		builds, marshals := false, false
		for f := range reach {
			switch p.FName(f) {
			case "(*lib/pkcs7.SignatureBuilder).Sign":
				builds = true
			case "lib/pkcs9.TimestampAndMarshal":
				marshals = true
			}
		}
		if !builds {
			continue
		}
		n++
		c.Check(marshals, "R01d", "signer "+e.name+" returns a self-verified PKCS#7", p.Pos(e.fn.Pos()), "SignatureBuilder.Sign and TimestampAndMarshal both reachable", "signer "+e.name+" builds a PKCS#7 signature but does not pass it through pkcs9.TimestampAndMarshal, the only place where relic verifies what it just produced")
	}
	if n < 8 {
		c.Undecided("R01d", "PKCS#7-producing signers", "-", fmt.Sprintf("only %d found (10 confirmed by reading)", n))
	}
}

// ------------------------------------------------------------------------------ R01e

func c01SideData(c *Ctx) {
	p := c.P
	// MSI: msiTransformer.exsig
	if tf := p.Func("signers/msi.transform"); tf == nil {
		c.Undecided("R01e", "msi.transform", "-", "function not found")
	} else {
		c.Analysed(p.FName(tf))
		var stored ssa.Value
		for _, b := range tf.Blocks {
			for _, in := range b.Instrs {
				if st, ok := in.(*ssa.Store); ok {
					if tn, f, _ := p.fieldAddr(st.Addr); tn == "signers/msi.msiTransformer" && f == "exsig" {
						stored = st.Val
					}
				}
			}
		}
		ok := stored != nil
		why := ""
		if ok {
			for _, lf := range phiLeaves(stored, nil, map[*ssa.Phi]bool{}) {
				if isNilConst(lf.V) {
					continue
				}
				call, idx := resultOf(lf.V)
				if call == nil || idx != 0 || p.calleeName(call.Common()) != "lib/authenticode.PrehashMSI" {
					ok = false
					why = "a value that is not the result of PrehashMSI: " + short(lf.V.String(), 60)
					continue
				}
				tn, f, _ := p.fieldLoad(stripConvAll(call.Common().Args[1]))
				if tn != "signers.SignOpts" || f != "Hash" {
					ok = false
					why = "PrehashMSI is not given SignOpts.Hash"
				}
			}
		}
		c.Check(ok, "R01e", "the extended MSI digest is PrehashMSI(input, requested digest) or absent", p.Pos(tf.Pos()), "", "the MsiDigitalSignatureEx blob the client writes next to the signature can be "+why+": the server digests the upload with the requested algorithm, so the two disagree and the signed file fails verification (\"MSI extended digest mismatch\")")
	}
	psTextSizeProvenance(c, "R01e")
	for _, f := range poolEscapes(p) {
		c.Check(f.OK, "R01e", f.Key, f.Pos, "", f.Detail)
	}
	c.runControl("R01e pooled memory also returned", "hasher).release", poolEscapes)
}
