package main

// C06 — no signature leaves relic without an audit record.

import (
	"fmt"
	"go/types"

	"golang.org/x/tools/go/ssa"
)

func init() {
	register(&propDef{
		ID: "C06",
		Meta: propMeta{
			Explanation: "Decides on every path: (R06a) the only functions that call through the Signer.Sign registry field are the server's /sign handler and the standalone sign command, and Signer.Sign functions are not invoked directly from elsewhere; (R06b) in the /sign handler, from the success edge of mod.Sign no use of the ResponseWriter (other than Header()) and no nil-error return is reachable without crossing PublishAudit(...)==nil, PublishAudit is called exactly once outside any loop, and its argument is the audit.Info created by this request's signinit.Init; (R06c) the same for the standalone command with the nil return as sink; (R06d) PublishAudit cannot return nil when a configured sink was skipped or failed, and every error in Info.AppendTo / Info.Publish is propagated; (R06e) AppendTo opens with O_APPEND, performs exactly one write outside any loop, of a buffer that ends in the newline appended before the write; (R06f) the record is built from this request's objects: audit.New receives the key config's name, the signer's name and the digest; the certificate recorded is InitKey's, and each kind (X.509, PGP) is recorded on every success path that did not find the key to have none; SignOpts carries that Info and that digest; the handler stores client.ip / client.filename and calls UserInfo.AuditContext before publishing, and every UserInfo implementation records a client.* attribute. (R06h) the digest recorded is the digest used: the rules of C01 R01a (every signer reads SignOpts.Hash; no crypto.Hash constant is passed, returned, stored or merged into a variable on a signing path outside the reasoned table; Init stores the requested digest into SignOpts and the record). (R06g) no value that reaches a function result is the memory of an object that went back into a sync.Pool (shared with C14 R14e): the serialised audit record cannot be overwritten by a concurrent request before it is delivered. (R06i) every OpenPGP packet.Config the module builds has its DefaultHash stored in a block dominating every use, so the digest the audit record names is the digest signed with.",
			NotDecided:  "atomicity of O_APPEND writes in the kernel, broker behaviour, and that the attribute values equal what the signer actually used beyond being derived from the same objects.",
			Assumptions: []string{"a single write(2) on an O_APPEND descriptor is not interleaved with other appenders (POSIX, for sizes the kernel writes atomically)"},
		},
		Run: runC06,
	})
}

// usesValue: does instruction `in` have v (or an alias) as an operand?
func usesValue(in ssa.Instruction, set map[ssa.Value]bool) bool {
	for _, op := range in.Operands(nil) {
		if op != nil && *op != nil && set[*op] {
			return true
		}
	}
	return false
}

// avoidable: can `sink` be reached from the entry of fn without executing `marker` first?
func avoidable(fn *ssa.Function, marker, sink ssa.Instruction) bool {
	if marker.Block() == sink.Block() {
		// same block: the sink is avoidable exactly when it comes first
		return instrIndex(marker) > instrIndex(sink)
	}
	if marker.Block() == fn.Blocks[0] {
		return false // every path starts by executing the marker
	}
	blocked := map[edge]bool{}
	for _, pb := range marker.Block().Preds {
		for si, s := range pb.Succs {
			if s == marker.Block() {
				blocked[edge{pb.Index, si}] = true
			}
		}
	}
	return reach(fn, []*ssa.BasicBlock{fn.Blocks[0]}, blocked, nil)[sink.Block().Index]
}

// signFieldCalls lists dynamic calls through a load of the field signers.Signer.<field>.
func (p *Prog) signerFieldCalls(fn *ssa.Function, field string) []ssa.CallInstruction {
	var out []ssa.CallInstruction
	for _, b := range fn.Blocks {
		for _, in := range b.Instrs {
			ci, ok := in.(ssa.CallInstruction)
			if !ok || ci.Common().IsInvoke() || ci.Common().StaticCallee() != nil {
				continue
			}
			if t, f, _ := p.fieldLoad(ci.Common().Value); t == "signers.Signer" && f == field {
				out = append(out, ci)
			}
		}
	}
	return out
}

// registeredSignerFuncs returns the functions stored in the given field of the
// signers.Signer literals passed to signers.Register (the registry).
func (p *Prog) registeredSignerFuncs(field string) map[*ssa.Function]string {
	out := map[*ssa.Function]string{}
	for _, fn := range p.Funcs {
		for _, b := range fn.Blocks {
			for _, in := range b.Instrs {
				st, ok := in.(*ssa.Store)
				if !ok {
					continue
				}
				t, f, base := p.fieldAddr(st.Addr)
				if t != "signers.Signer" || f != field {
					continue
				}
				var target *ssa.Function
				switch v := st.Val.(type) {
				case *ssa.Function:
					target = v
				case *ssa.MakeClosure:
					target, _ = v.Fn.(*ssa.Function)
				}
				if target == nil {
					continue
				}
				name := ""
				// the Name field of the same literal
				if base != nil {
					for _, r := range *base.Referrers() {
						if fa, ok := r.(*ssa.FieldAddr); ok {
							if _, fn2, _ := p.fieldAddr(fa); fn2 == "Name" {
								for _, r2 := range *fa.Referrers() {
									if s2, ok := r2.(*ssa.Store); ok {
										if s, ok := constString(s2.Val); ok {
											name = s
										}
									}
								}
							}
						}
					}
				}
				out[target] = name
			}
		}
	}
	return out
}

func runC06(c *Ctx) {
	defer round7C06(c)
	p := c.P
	const (
		ra = "R06a"
		rb = "R06b"
		rc = "R06c"
		rd = "R06d"
		re = "R06e"
		rf = "R06f"
	)
	c.Rule(ra, "calls through Signer.Sign occur only in the /sign handler and the standalone sign command; registered Sign functions have no other direct callers outside their own package", 2)
	c.Rule(rb, "server: after a successful Sign, no response write and no nil return before PublishAudit(...)==nil; exactly one PublishAudit, on this request's Info", 4)
	c.Rule(rc, "standalone: after a successful Sign, no nil return before PublishAudit(...)==nil; exactly one PublishAudit on this run's Info", 3)
	c.Rule(rd, "PublishAudit returns nil only if every configured sink succeeded; AppendTo/Publish propagate every error", 8)
	c.Rule(re, "AppendTo: O_APPEND open, one write outside loops, of a newline-terminated buffer", 3)
	c.Rule(rf, "the audit record is built from this request's key config, signer, digest, certificate and client identity", 8)

	allowedCallers := map[string]bool{"(*server.Server).serveSign": true, "cmdline/token.signCmd": true}
	reg := p.registeredSignerFuncs("Sign")
	c.Note("R06a: %d functions registered as Signer.Sign", len(reg))
	for _, fn := range p.Funcs {
		for i, ci := range p.signerFieldCalls(fn, "Sign") {
			key := fmt.Sprintf("%s calls Signer.Sign#%d", p.FName(fn), i+1)
			c.Check(allowedCallers[p.FName(fn)], ra, key, p.Pos(ci.Pos()), "audited signing path", "a new caller of Signer.Sign: signing path without an audit obligation (add it to the rule with its own audit-before-success check)")
		}
		// direct calls of a registered Sign function from another package
		for _, b := range fn.Blocks {
			for _, in := range b.Instrs {
				ci, ok := in.(ssa.CallInstruction)
				if !ok {
					continue
				}
				sc := ci.Common().StaticCallee()
				if sc == nil {
					continue
				}
				if _, isReg := reg[sc]; isReg && pkgOf(sc) != pkgOf(fn) {
					c.Fail(ra, fmt.Sprintf("%s calls %s directly", p.FName(fn), p.FName(sc)), p.Pos(ci.Pos()), "a registered Signer.Sign function is invoked directly, bypassing the audited entry points")
				}
			}
		}
	}
	if len(reg) < 15 {
		c.Undecided(ra, "signer registry", "-", fmt.Sprintf("only %d Signer.Sign registrations resolved (expected 18): registry shape changed", len(reg)))
	}

	c06Entry(c, rb, rf, "server.(*Server).serveSign", true)
	c06Entry(c, rc, rf, "cmdline/token.signCmd", false)
	c06Publish(c, rd)
	c06Append(c, rd, re)
	c06Content(c, rf)
	c06Pooled(c)
	c.Rule("R06h", "the digest the audit record names is the digest the signer uses: the requested digest reaches every signer unchanged (shared with C01 R01a)", 22)
	c01RuleDigest = "R06h"
	c01Digest(c)
	c01RuleDigest = "R01a"
}

func c06Entry(c *Ctx, rule, rf, spec string, isServer bool) {
	p := c.P
	fn := p.Func(spec)
	if fn == nil {
		c.Undecided(rule, spec, "-", "function not found")
		return
	}
	c.Analysed(p.FName(fn))
	fname := p.FName(fn)
	signs := p.signerFieldCalls(fn, "Sign")
	if len(signs) != 1 {
		c.Undecided(rule, fname+" Sign call", p.Pos(fn.Pos()), fmt.Sprintf("%d calls through Signer.Sign, the rule understands exactly one", len(signs)))
		return
	}
	sign := signs[0].(*ssa.Call)
	var signErr ssa.Value
	for _, r := range *sign.Referrers() {
		if e, ok := r.(*ssa.Extract); ok && e.Index == 1 {
			signErr = e
		}
	}
	pubs := p.publishSites(fn, 2)
	if len(pubs) != 1 {
		c.Fail(rule, fname+" PublishAudit count", p.Pos(fn.Pos()), fmt.Sprintf("%d PublishAudit calls, expected exactly one per signing operation", len(pubs)))
		return
	}
	pub := pubs[0]
	inLoop := reach(fn, pub.Block().Succs, nil, nil)[pub.Block().Index]
	c.Check(!inLoop, rule, fname+" PublishAudit once", p.Pos(pub.Pos()), "one record per operation", "PublishAudit is inside a loop: more than one record per signature")
	pubOK := p.errNilWrapperGuard("PublishAudit()==nil", func(*ssa.Function) Guard {
		return p.callGuard("PublishAudit()==nil", []string{"internal/signinit.PublishAudit"}, -1, IsNil, nil)
	}, 2)(fn)
	del := passEdges(fn, pubOK)
	// failure of Sign itself leaves through its own error return
	if signErr != nil {
		for e := range passEdges(fn, Guard{Match: func(f Fact) bool { return f.Kind == NonNil && stripConv(f.V) == signErr }}) {
			del[e] = true
		}
	}
	pred := map[int]int{}
	seen := reachAfter(fn, sign, del, pred)
	// sinks
	if isServer {
		rwSet := map[ssa.Value]bool{}
		for _, par := range fn.Params {
			if typeName(p, par.Type()) == "net/http.ResponseWriter" {
				s, _ := aliasesOf(par)
				for k := range s {
					rwSet[k] = true
				}
			}
		}
		n := 0
		for _, b := range fn.Blocks {
			for _, in := range b.Instrs {
				if !usesValue(in, rwSet) {
					continue
				}
				if ci, ok := in.(ssa.CallInstruction); ok && ci.Common().IsInvoke() && ci.Common().Method.Name() == "Header" {
					continue // preparing headers sends nothing yet
				}
				after := reachableAfter(fn, sign, in, nil, nil)
				if !after {
					continue
				}
				n++
				what := "response use"
				if ci, ok := in.(ssa.CallInstruction); ok {
					what = p.describeCall(ci)
				}
				key := fmt.Sprintf("%s response#%d %s", fname, n, what)
				bad := seen[in.Block().Index] || (in.Block() == sign.Block() && instrIndex(in) > instrIndex(sign))
				c.Check(!bad, rule, key, p.Pos(in.Pos()), "reachable only after PublishAudit succeeded", "the response can be written after a successful Sign without a successfully published audit record", p.witness(fn, pred, in.Block().Index)...)
			}
		}
		c.Check(n > 0, rule, fname+" response written", p.Pos(fn.Pos()), "", "no response write found after Sign")
	}
	n := 0
	for _, r := range p.successReturns(fn) {
		if !reachableAfter(fn, sign, r, nil, nil) {
			continue
		}
		n++
		key := fmt.Sprintf("%s success-return#%d", fname, n)
		c.Check(!seen[r.Block().Index], rule, key, p.Pos(r.Pos()), "success only after PublishAudit succeeded", "the operation can complete successfully after Sign without a successfully published audit record", p.witness(fn, pred, r.Block().Index)...)
	}
	c.Check(n > 0, rule, fname+" success return after Sign", p.Pos(fn.Pos()), "", "no success return found after Sign")
	// the Info published is the one created by this request's Init
	inits := p.callsIn(fn, "internal/signinit.Init")
	if len(inits) != 1 {
		c.Undecided(rule, fname+" Init", p.Pos(fn.Pos()), fmt.Sprintf("%d signinit.Init calls", len(inits)))
		return
	}
	initCall := inits[0].(*ssa.Call)
	fromInit := func(v ssa.Value) bool {
		return dependsOn(v, func(x ssa.Value) bool { a, idx := resultOf(x); return a == initCall && idx == 1 })
	}
	pubArgOK := false
	for _, a := range pub.Common().Args {
		if fromInit(a) {
			pubArgOK = true
		}
	}
	c.Check(pubArgOK, rule, fname+" publishes this request's Info", p.Pos(pub.Pos()), "PublishAudit(opts.Audit) with opts from this request's Init", "PublishAudit is not given the audit.Info created for this request")
	// Sign receives this request's opts and cert
	okOpts := fromInit(sign.Call.Args[2])
	a1, i1 := resultOf(sign.Call.Args[1])
	c.Check(okOpts && a1 == initCall && i1 == 0, rule, fname+" signs with this request's cert/opts", p.Pos(sign.Pos()), "Sign(stream, cert, *opts) from Init", "Sign is not given the certificate and options returned by this request's Init")
	if isServer {
		// client identity stored before publishing
		for _, attr := range []string{"client.ip", "client.filename"} {
			var st ssa.Instruction
			for _, b := range fn.Blocks {
				for _, in := range b.Instrs {
					if mu, ok := in.(*ssa.MapUpdate); ok {
						if s, ok := constString(stripConv(mu.Key)); ok && s == attr && fromInit(mu.Map) {
							st = mu
						}
					}
				}
			}
			key := fmt.Sprintf("%s records %s", fname, attr)
			if st == nil {
				c.Fail(rf, key, p.Pos(fn.Pos()), "the audit record is not given the attribute "+attr)
				continue
			}
			c.Check(!avoidable(fn, st, pub), rf, key, p.Pos(st.Pos()), "stored on every path before PublishAudit", attr+" is not recorded on every path to PublishAudit")
		}
		acs := p.callsIn(fn, "(internal/authmodel.UserInfo).AuditContext")
		if len(acs) == 0 {
			c.Fail(rf, fname+" records caller identity", p.Pos(fn.Pos()), "UserInfo.AuditContext is never called: the record does not name the client")
		} else {
			ok := !avoidable(fn, acs[0], pub) && fromInit(acs[0].Common().Args[0])
			c.Check(ok, rf, fname+" records caller identity", p.Pos(acs[0].Pos()), "userInfo.AuditContext(opts.Audit) on every path before PublishAudit", "the caller's identity is not added to this request's audit record on every path")
			// the userInfo is this request's
			ri, _ := resultOf(acs[0].Common().Value)
			c.Check(ri != nil && p.calleeName(ri.Common()) == "internal/authmodel.RequestInfo", rf, fname+" caller identity source", p.Pos(acs[0].Pos()), "identity from authmodel.RequestInfo(request)", "identity does not come from this request's authenticated UserInfo")
		}
	}
}

// publishSites: calls in fn to signinit.PublishAudit, or to a module function that
// (to the given depth) contains such a call — a wrapper; whether the wrapper really
// propagates the failure is decided by the wrapper-aware guard, not here.
func (p *Prog) publishSites(fn *ssa.Function, depth int) []ssa.CallInstruction {
	var contains func(f *ssa.Function, d int) bool
	contains = func(f *ssa.Function, d int) bool {
		if f == nil || f.Blocks == nil || d < 0 {
			return false
		}
		if len(p.callsIn(f, "internal/signinit.PublishAudit")) > 0 {
			return true
		}
		for _, b := range f.Blocks {
			for _, in := range b.Instrs {
				if ci, ok := in.(ssa.CallInstruction); ok {
					if sc := ci.Common().StaticCallee(); sc != nil && p.InModule(pkgOf(sc)) && sc != f && contains(sc, d-1) {
						return true
					}
				}
			}
		}
		return false
	}
	var out []ssa.CallInstruction
	for _, b := range fn.Blocks {
		for _, in := range b.Instrs {
			ci, ok := in.(ssa.CallInstruction)
			if !ok {
				continue
			}
			if p.calleeName(ci.Common()) == "internal/signinit.PublishAudit" {
				out = append(out, ci)
				continue
			}
			if sc := ci.Common().StaticCallee(); sc != nil && sc.Blocks != nil && p.InModule(pkgOf(sc)) && contains(sc, depth-1) {
				out = append(out, ci)
			}
		}
	}
	return out
}

func c06Publish(c *Ctx, rd string) {
	p := c.P
	fn := p.Func("internal/signinit.PublishAudit")
	if fn == nil {
		c.Undecided(rd, "signinit.PublishAudit", "-", "function not found")
		return
	}
	c.Analysed(p.FName(fn))
	type sink struct {
		callee string
		cfg    func(v ssa.Value) bool // value derived from the sink's configuration
		label  string
	}
	// a configuration test is a direct test of the field (x.F != nil, x.F != ""), not
	// anything computed from it through a call
	cfgField := func(names ...string) func(ssa.Value) bool {
		return func(v ssa.Value) bool {
			_, f, _ := p.fieldLoad(stripConv(v))
			for _, n := range names {
				if f == n {
					return true
				}
			}
			return false
		}
	}
	sinks := []sink{
		{"(*lib/audit.Info).Publish", cfgField("Amqp", "URL"), "AMQP broker"},
		{"(*lib/audit.Info).AppendTo", cfgField("AuditFile"), "audit file"},
	}
	// hostCheck: in `host`, which calls `call` (the sink, or a helper that delivers to it), a nil return is
	// reachable only when the call returned nil or - for the sink itself - the sink is not configured
	hostCheck := func(host *ssa.Function, call ssa.CallInstruction, cfg func(ssa.Value) bool) (bool, []string, string) {
		sb := call.Block()
		ev := errValueOf(call)
		if ev == nil {
			return false, nil, "the sink's error is discarded: a failed audit write does not abort the signature"
		}
		del := passEdges(host, Guard{Match: func(f Fact) bool { return f.Kind == IsNil && stripConv(f.V) == ev }})
		// the call's own result returned directly is the call's verdict
		for _, r := range returnsOf(host) {
			if ei := errResultIndex(host.Signature); ei >= 0 && ei < len(r.Results) && stripConv(retVal(r, ei)) == ev {
				for si := range r.Block().Succs {
					_ = si
				}
			}
		}
		if cfg != nil {
			for _, b := range host.Blocks {
				ifi, ok := b.Instrs[len(b.Instrs)-1].(*ssa.If)
				if !ok {
					continue
				}
				onCfg := false
				for _, f := range append(factsOf(ifi.Cond, true), factsOf(ifi.Cond, false)...) {
					if cfg(f.V) {
						onCfg = true
					}
					if bo, ok := f.V.(*ssa.BinOp); ok && (cfg(bo.X) || cfg(bo.Y)) {
						onCfg = true
					}
				}
				if !onCfg {
					continue
				}
				for si, succ := range b.Succs {
					if !reach(host, []*ssa.BasicBlock{succ}, nil, nil)[sb.Index] {
						del[edge{b.Index, si}] = true
					}
				}
			}
		}
		pred := map[int]int{}
		seen := reach(host, []*ssa.BasicBlock{host.Blocks[0]}, del, pred)
		ei := errResultIndex(host.Signature)
		for _, r := range p.successReturns(host) {
			// `return call(...)`: the return carries the call's own error
			if ei >= 0 && stripConv(retVal(r, ei)) == ev {
				continue
			}
			if seen[r.Block().Index] {
				return false, p.witness(host, pred, r.Block().Index), ""
			}
		}
		return true, nil, ""
	}
	for _, s := range sinks {
		key := "internal/signinit.PublishAudit sink " + s.label
		// the sink is called by PublishAudit itself or by a helper of its package that PublishAudit calls (two levels)
		type link struct {
			host *ssa.Function
			call ssa.CallInstruction
		}
		var chain []link
		host := fn
		found := false
		for depth := 0; depth < 3 && !found; depth++ {
			if calls := p.callsIn(host, s.callee); len(calls) == 1 {
				chain = append(chain, link{host, calls[0]})
				found = true
				break
			} else if len(calls) > 1 {
				break
			}
			// exactly one same-package callee that reaches the sink
			var next *ssa.Function
			var via ssa.CallInstruction
			cnt := 0
			for _, b := range host.Blocks {
				for _, in := range b.Instrs {
					ci, ok := in.(ssa.CallInstruction)
					if !ok {
						continue
					}
					g := ci.Common().StaticCallee()
					if g == nil || pkgOf(g) != pkgOf(fn) || len(g.Blocks) == 0 {
						continue
					}
					reaches := false
					for h := range p.moduleReach([]*ssa.Function{g}, nil) {
						if pkgOf(h) == pkgOf(fn) && len(p.callsIn(h, s.callee)) > 0 {
							reaches = true
						}
					}
					if reaches {
						cnt++
						next, via = g, ci
					}
				}
			}
			if cnt != 1 {
				break
			}
			chain = append(chain, link{host, via})
			host = next
		}
		if !found {
			c.Fail(rd, key, p.Pos(fn.Pos()), fmt.Sprintf("PublishAudit (and the helpers of its package it calls) does not deliver to %s exactly once", s.callee))
			continue
		}
		okAll := true
		var path []string
		why := ""
		for li, l := range chain {
			cfg := s.cfg
			if li != len(chain)-1 {
				cfg = nil // a helper call is not skipped for configuration reasons at this level
			}
			ok, pth, w := hostCheck(l.host, l.call, cfg)
			c.Analysed(p.FName(l.host))
			if !ok {
				okAll, path, why = false, pth, w
			}
		}
		last := chain[len(chain)-1]
		if why != "" {
			c.Fail(rd, key, p.Pos(last.call.Pos()), why)
			continue
		}
		c.Check(okAll, rd, key, p.Pos(last.call.Pos()), "PublishAudit succeeds only if this sink succeeded or is not configured", "PublishAudit can return nil although the configured "+s.label+" sink was skipped or failed", path...)
	}
	// E2 in the sink implementations
	for _, spec := range []string{"lib/audit.(*Info).AppendTo", "lib/audit.(*Info).Publish", "lib/audit.(*Info).Marshal"} {
		f := p.Func(spec)
		if f == nil {
			c.Undecided(rd, spec, "-", "function not found")
			continue
		}
		c.Analysed(p.FName(f))
		n := 0
		for _, b := range f.Blocks {
			for _, in := range b.Instrs {
				ci, ok := in.(*ssa.Call)
				if !ok || errResultIndex(ci.Common().Signature()) < 0 {
					continue
				}
				n++
				name := p.describeCall(ci)
				key := fmt.Sprintf("%s %s#%d", p.FName(f), name, n)
				if errDisposition(ci) == errDropped {
					c.Fail(rd, key, p.Pos(ci.Pos()), "error discarded inside an audit sink: a failed delivery would be reported as success")
					continue
				}
				direct := false
				for _, r := range *ci.Referrers() {
					if _, ok := r.(*ssa.Return); ok {
						direct = true
					}
				}
				if direct {
					c.Pass(rd, key, p.Pos(ci.Pos()), "returned directly")
					continue
				}
				if r, path := p.failureReachesSuccess(f, errValueOf(ci)); r != nil {
					c.Fail(rd, key, p.Pos(ci.Pos()), "failure of this call can reach a nil return at "+p.Pos(r.Pos()), path...)
				} else {
					c.Pass(rd, key, p.Pos(ci.Pos()), "error propagated")
				}
			}
		}
	}
	// AMQP: a NACK is a failure
	if pf := p.Func("lib/audit.(*Info).Publish"); pf != nil {
		ack := Guard{Name: "confirm.Ack==true", Match: func(f Fact) bool {
			_, fld, _ := p.fieldLoad(f.V)
			return f.Kind == IsTrue && fld == "Ack"
		}}
		pubOK := p.callGuard("Channel.Publish err==nil", []string{"(*github.com/streadway/amqp.Channel).Publish"}, -1, IsNil, nil)
		for i, r := range p.successReturns(pf) {
			missing, path := p.unguardedFromEntry(pf, r, ack, pubOK)
			c.Check(len(missing) == 0, rd, fmt.Sprintf("(*lib/audit.Info).Publish success-return#%d", i+1), p.Pos(r.Pos()), "success only after the broker acknowledged", fmt.Sprintf("Publish can succeed without %v", missing), path...)
		}
	}
}

func c06Append(c *Ctx, rd, re string) {
	p := c.P
	fn := p.Func("lib/audit.(*Info).AppendTo")
	if fn == nil {
		c.Undecided(re, "(*Info).AppendTo", "-", "function not found")
		return
	}
	fname := p.FName(fn)
	opens := p.callsIn(fn, "os.OpenFile")
	if len(opens) != 1 {
		c.Fail(re, fname+" open", p.Pos(fn.Pos()), fmt.Sprintf("%d os.OpenFile calls (os.Create / other openers cannot append atomically), expected 1", len(opens)))
		return
	}
	flags, ok := constInt(opens[0].Common().Args[1])
	const oAppend, oWronly, oRdwr, oTrunc = 0x400, 0x1, 0x2, 0x200
	c.Check(ok && flags&oAppend != 0 && flags&(oWronly|oRdwr) != 0 && flags&oTrunc == 0, re, fname+" O_APPEND", p.Pos(opens[0].Pos()), fmt.Sprintf("flags=%#x", flags), fmt.Sprintf("audit file is not opened append-only (flags=%#x): concurrent writers overwrite each other / file truncated", flags))
	// writes on that file
	var fileV ssa.Value
	for _, r := range *opens[0].(*ssa.Call).Referrers() {
		if e, ok := r.(*ssa.Extract); ok && e.Index == 0 {
			fileV = e
		}
	}
	set, _ := aliasesOf(fileV)
	var writes []ssa.CallInstruction
	for _, b := range fn.Blocks {
		for _, in := range b.Instrs {
			ci, ok := in.(ssa.CallInstruction)
			if !ok {
				continue
			}
			if _, isDefer := in.(*ssa.Defer); isDefer {
				continue
			}
			isWrite := p.isMethodCallOn(ci, set, map[string]bool{"Write": true, "WriteString": true, "WriteAt": true, "ReadFrom": true})
			if !isWrite {
				// fmt.Fprint*(f, …), io.WriteString(f, …), io.Copy(f, …)
				switch p.calleeName(ci.Common()) {
				case "fmt.Fprintf", "fmt.Fprint", "fmt.Fprintln", "io.WriteString", "io.Copy", "(*encoding/json.Encoder).Encode":
					if len(ci.Common().Args) > 0 && set[ci.Common().Args[0]] {
						isWrite = true
					}
				case "encoding/json.NewEncoder", "bufio.NewWriter":
					if len(ci.Common().Args) > 0 && set[ci.Common().Args[0]] {
						isWrite = true
					}
				}
			}
			if isWrite {
				writes = append(writes, ci)
			}
		}
	}
	if len(writes) != 1 {
		c.Fail(re, fname+" single write", p.Pos(fn.Pos()), fmt.Sprintf("%d write operations on the audit file; exactly one write per record keeps concurrent appends line-atomic", len(writes)))
		return
	}
	w := writes[0]
	inLoop := reach(fn, w.Block().Succs, nil, nil)[w.Block().Index]
	isPlainWrite := p.isMethodCallOn(w, set, map[string]bool{"Write": true, "WriteString": true})
	c.Check(!inLoop && isPlainWrite, re, fname+" single write", p.Pos(w.Pos()), "one Write call, not in a loop", "the record is not written by a single Write call outside any loop")
	if isPlainWrite {
		arg := w.Common().Args[len(w.Common().Args)-1]
		nl := dependsOn(arg, func(x ssa.Value) bool {
			if k, ok := constInt(x); ok && k == 10 {
				if b, ok := x.Type().Underlying().(*types.Basic); ok && (b.Kind() == types.Uint8 || b.Kind() == types.Int32 || b.Kind() == types.UntypedRune) {
					return true
				}
			}
			if s, ok := constString(x); ok && len(s) > 0 && s[len(s)-1] == '\n' {
				return true
			}
			return false
		})
		blobFromMarshal := dependsOn(arg, func(x ssa.Value) bool {
			call, _ := resultOf(x)
			return call != nil && p.calleeName(call.Common()) == "(*lib/audit.Info).Marshal"
		})
		c.Check(nl && blobFromMarshal, re, fname+" newline-terminated record", p.Pos(w.Pos()), "buffer = Marshal() + '\\n', written once", fmt.Sprintf("the written buffer is not the marshalled record with the newline appended (newline:%v, from Marshal:%v)", nl, blobFromMarshal))
	}
}

func c06Content(c *Ctx, rf string) {
	p := c.P
	init := p.Func("internal/signinit.Init")
	if init == nil {
		c.Undecided(rf, "signinit.Init", "-", "function not found")
		return
	}
	c.Analysed(p.FName(init))
	news := p.callsIn(init, "lib/audit.New")
	iks := p.callsIn(init, "internal/signinit.InitKey")
	if len(news) != 1 || len(iks) != 1 {
		c.Fail(rf, "internal/signinit.Init creates one Info", p.Pos(init.Pos()), fmt.Sprintf("%d audit.New calls, %d InitKey calls, expected 1 each (a fresh record per request)", len(news), len(iks)))
		return
	}
	nw := news[0].(*ssa.Call)
	ik := iks[0].(*ssa.Call)
	inLoop := reach(init, nw.Block().Succs, nil, nil)[nw.Block().Index]
	c.Check(!inLoop, rf, "internal/signinit.Init creates one Info", p.Pos(nw.Pos()), "fresh audit.Info per request", "audit.New in a loop")
	param := func(name string) ssa.Value {
		for _, par := range init.Params {
			if par.Name() == name {
				return par
			}
		}
		return nil
	}
	// arg0: kconf.Name() with kconf = InitKey result #1
	a0, _ := resultOf(nw.Call.Args[0])
	ok0 := false
	if a0 != nil && p.calleeName(a0.Common()) == "(*config.KeyConfig).Name" {
		src, idx := resultOf(a0.Common().Args[0])
		ok0 = src == ik && idx == 1
	}
	c.Check(ok0, rf, "internal/signinit.Init record names the key", p.Pos(nw.Pos()), "audit.New(kconf.Name(), …) with kconf from InitKey", "the audit record's key name is not the name of the key configuration that InitKey resolved")
	// arg1: mod.Name
	_, f1, base1 := p.fieldLoad(nw.Call.Args[1])
	_ = param
	c.Check(f1 == "Name" && inputOfType(init, base1, "signers.Signer"), rf, "internal/signinit.Init record names the signature type", p.Pos(nw.Pos()), "audit.New(…, mod.Name, …)", "the audit record's signature type is not the signer module's name")
	// arg2: hash
	c.Check(inputOfType(init, nw.Call.Args[2], "crypto.Hash"), rf, "internal/signinit.Init record names the digest", p.Pos(nw.Pos()), "audit.New(…, hash)", "the audit record's digest is not the requested digest")
	// certificate recorded = InitKey's
	for _, m := range []struct{ callee, field, label string }{
		{"(*lib/audit.Info).SetX509Cert", "Leaf", "X.509 certificate"},
		{"(*lib/audit.Info).SetPgpCert", "PgpKey", "PGP key"},
	} {
		key := "internal/signinit.Init records " + m.label
		// the recording happens in Init itself or in a helper of its package that Init calls once and whose
		// failure it hands on
		host, via := init, ssa.CallInstruction(nil)
		calls := p.callsIn(init, m.callee)
		if len(calls) == 0 {
			for _, b := range init.Blocks {
				for _, in := range b.Instrs {
					ci, ok := in.(ssa.CallInstruction)
					if !ok {
						continue
					}
					g := ci.Common().StaticCallee()
					if g == nil || pkgOf(g) != pkgOf(init) || len(g.Blocks) == 0 {
						continue
					}
					if cs := p.callsIn(g, m.callee); len(cs) > 0 && via == nil {
						host, via, calls = g, ci, cs
					}
				}
			}
		}
		if len(calls) == 0 {
			c.Fail(rf, key, p.Pos(init.Pos()), "the "+m.label+" is never recorded in the audit record")
			continue
		}
		// an operand of the helper is what Init passed for it
		resolve := func(v ssa.Value) ssa.Value {
			if pa, ok := v.(*ssa.Parameter); ok && via != nil {
				for k, hp := range host.Params {
					if hp == pa && k < len(via.Common().Args) {
						return via.Common().Args[k]
					}
				}
			}
			return v
		}
		if via != nil {
			// Init does not succeed when the helper failed
			if ev := errValueOf(via); ev != nil {
				if r, path := p.failureReachesSuccess(init, ev); r != nil {
					c.Fail(rf, key, p.Pos(via.Pos()), "the helper that records the certificate can fail and Init still succeeds (return at "+p.Pos(r.Pos())+")", path...)
					continue
				}
			}
		}
		_, fld, base := p.fieldLoad(calls[0].Common().Args[1])
		src, idx := resultOf(resolve(base))
		recv, _ := resultOf(resolve(calls[0].Common().Args[0]))
		c.Check(fld == m.field && src == ik && idx == 0 && recv == nw, rf, key, p.Pos(calls[0].Pos()), "recorded from the certificate InitKey loaded, into this request's Info", "the recorded "+m.label+" is not the one loaded for this key / not recorded in this request's Info")
		// recorded whenever present: a success return is reached only through the call or through an edge
		// on which that field of the certificate bundle was found nil
		del := map[edge]bool{}
		for _, ci := range calls {
			for si := range ci.Block().Succs {
				del[edge{ci.Block().Index, si}] = true
			}
		}
		for _, b := range host.Blocks {
			ifi, ok := b.Instrs[len(b.Instrs)-1].(*ssa.If)
			if !ok {
				continue
			}
			for si, truth := range []bool{true, false} {
				for _, f := range factsOf(ifi.Cond, truth) {
					if f.Kind != IsNil {
						continue
					}
					if _, fl, bs := p.fieldLoad(f.V); fl == m.field {
						if s2, i2 := resultOf(resolve(bs)); s2 == ik && i2 == 0 {
							del[edge{b.Index, si}] = true
						}
					}
				}
			}
		}
		pred := map[int]int{}
		seen := reach(host, []*ssa.BasicBlock{host.Blocks[0]}, del, pred)
		bad := ""
		var path []string
		for _, r := range p.successReturns(host) {
			inCallBlock := false
			for _, ci := range calls {
				if ci.Block() == r.Block() {
					inCallBlock = true
				}
			}
			if seen[r.Block().Index] && !inCallBlock {
				bad = p.Pos(r.Pos())
				path = p.witness(host, pred, r.Block().Index)
			}
		}
		c.Check(bad == "", rf, key+" whenever the key has one", p.Pos(calls[0].Pos()), "every success path records it or found it absent", "Init can succeed ("+bad+") on a path that neither records the "+m.label+" nor found the key to have none: for a key that carries both kinds of certificate the record names only one of them, and a signature made under the other is not attributable from the audit trail", path...)
	}
	// SignOpts carries this Info and this digest
	okAudit, okHash := false, false
	for _, b := range init.Blocks {
		for _, in := range b.Instrs {
			st, ok := in.(*ssa.Store)
			if !ok {
				continue
			}
			t, f, _ := p.fieldAddr(st.Addr)
			if t != "signers.SignOpts" {
				continue
			}
			if f == "Audit" && st.Val == nw {
				okAudit = true
			}
			if f == "Hash" && inputOfType(init, st.Val, "crypto.Hash") {
				okHash = true
			}
		}
	}
	c.Check(okAudit && okHash, rf, "internal/signinit.Init SignOpts carries Info and digest", p.Pos(init.Pos()), "SignOpts{Hash: hash, Audit: auditInfo}", fmt.Sprintf("SignOpts does not carry this request's audit.Info (%v) / digest (%v)", okAudit, okHash))
	// every UserInfo implementation records a client.* attribute
	ui := p.ifaceNamed("internal/authmodel", "UserInfo")
	if ui == nil {
		c.Undecided(rf, "authmodel.UserInfo", "-", "interface not found")
		return
	}
	for _, t := range p.implementersOf(ui) {
		fn := p.methodOf(t, "AuditContext")
		if fn == nil {
			continue
		}
		c.Analysed(p.FName(fn))
		// an unconditional (entry-block-dominating) store of a "client." key into info.Attributes
		ok := false
		for _, b := range fn.Blocks {
			for _, in := range b.Instrs {
				if mu, isMU := in.(*ssa.MapUpdate); isMU {
					if s, isS := constString(stripConv(mu.Key)); isS && len(s) > 7 && s[:7] == "client." {
						// unconditional: every return passes through it
						uncond := true
						for _, r := range returnsOf(fn) {
							if avoidable(fn, mu, r) {
								uncond = false
							}
						}
						if uncond {
							ok = true
						}
					}
				}
			}
		}
		c.Check(ok, rf, p.FName(fn)+" records a client attribute", p.Pos(fn.Pos()), "stores client.* unconditionally", "this UserInfo implementation does not always record who the client is")
	}
}

// c06Pooled (R06g): the serialised record is this request's own memory. A record marshalled into
// a pooled buffer whose bytes are handed on (to the AMQP message, to the file write) can be
// overwritten by the next request's record before it is delivered: one record lost, one doubled.
func c06Pooled(c *Ctx) {
	p := c.P
	c.Rule("R06g", "the bytes of an audit record are never memory that went back into a sync.Pool", 0)
	for _, f := range poolEscapes(p) {
		c.Check(f.OK, "R06g", f.Key, f.Pos, "", f.Detail)
	}
	for _, f := range poolUseAfterPut(p) {
		c.Check(f.OK, "R06g", f.Key, f.Pos, "", f.Detail)
	}
	c.runControl("R06g pooled memory also returned", "hasher).release", poolEscapes)
}
