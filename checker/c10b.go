package main

// C10, rules added after the third seeding round: R10h (the token is attached to the caller's
// structure), R10i (the exchange with an authority is bounded as a whole, so that failover can
// happen), R10j (the chain verdict does not depend on what was verified before).

import (
	"fmt"
	"go/token"
	"sort"
	"strings"

	"golang.org/x/tools/go/ssa"
)

func c10Round3(c *Ctx) {
	p := c.P
	c.Rule("R10h", "TimestampAndMarshal attaches the token to a SignerInfo inside the structure its caller passed, not to a copy", 1)
	c.Rule("R10i", "the HTTP client that talks to timestamp authorities bounds the whole exchange (Client.Timeout or a request context with a deadline)", 1)
	c.Rule("R10j", "chain verification keeps no verdict from one call to the next: no package-level state is read or written on its path", 2)

	// ---- R10h
	if fn := p.Func("lib/pkcs9.TimestampAndMarshal"); fn == nil {
		c.Undecided("R10h", "pkcs9.TimestampAndMarshal", "-", "function not found")
	} else {
		c.Analysed(p.FName(fn))
		n := 0
		for _, ci := range p.callsIn(fn, "lib/pkcs9.AddStampToSignedData", "lib/pkcs9.AddStampToSignedAuthenticode") {
			n++
			key := fmt.Sprintf("%s attaches through %s#%d", p.FName(fn), p.calleeName(ci.Common()), n)
			bad := insideParam(ci.Common().Args[0])
			c.Check(bad == "", "R10h", key, p.Pos(ci.Pos()), "an element of the parameter's own SignerInfos", "the SignerInfo that receives the token is not inside the SignedData the caller handed in ("+bad+"): callers that go on to use their own structure (xar, Mach-O and detached JAR signing call Detach() and marshal it again) write a signature without the timestamp, while the function reports the counter-signature as present")
		}
		if n == 0 {
			c.Undecided("R10h", "token attachment calls", p.Pos(fn.Pos()), "no AddStampToSigned* call found")
		}
	}
	// ---- R10i
	nClients := 0
	for _, fn := range p.pkgFuncs("lib/pkcs9/tsclient") {
		for _, b := range fn.Blocks {
			for _, in := range b.Instrs {
				a, ok := in.(*ssa.Alloc)
				if !ok || !strings.HasSuffix(derefType(a.Type()).String(), "net/http.Client") {
					continue
				}
				nClients++
				c.Analysed(p.FName(fn))
				hasTimeout := false
				for _, ref := range *a.Referrers() {
					fa, ok := ref.(*ssa.FieldAddr)
					if !ok {
						continue
					}
					if _, f, _ := p.fieldAddr(fa); f != "Timeout" {
						continue
					}
					for _, r2 := range *fa.Referrers() {
						if st, ok := r2.(*ssa.Store); ok {
							if k, isK := constInt(st.Val); !isK || k != 0 {
								hasTimeout = true
							}
						}
					}
				}
				// or every request is built with a context that has a deadline
				ctxBound := false
				for _, f2 := range p.pkgFuncs("lib/pkcs9/tsclient") {
					if len(p.callsIn(f2, "context.WithTimeout", "context.WithDeadline")) > 0 && len(p.callsIn(f2, "net/http.NewRequestWithContext", "(*net/http.Request).WithContext")) > 0 {
						ctxBound = true
					}
				}
				c.Check(hasTimeout || ctxBound, "R10i", fmt.Sprintf("%s http.Client#%d bounds the exchange", p.FName(fn), nClients), p.Pos(a.Pos()), "Client.Timeout set", "the HTTP client for timestamp authorities has no Timeout (and no request deadline): limits on connecting or on the response headers do not cover the body, so an authority that answers 200 and then stalls blocks the request for ever and the next configured authority is never tried")
			}
		}
	}
	if nClients == 0 {
		c.Undecided("R10i", "timestamp HTTP client", "-", "no http.Client is built in lib/pkcs9/tsclient")
	}
	// ---- R10j
	for _, f := range verdictState(p) {
		c.Check(f.OK, "R10j", f.Key, f.Pos, f.Detail, f.Detail)
	}
	c.runControl("R10j verdict cache control (ctl/memo.Verify)", "memo.", verdictState)
	c.Rule("R10k", "a key's timestamp settings are the configured ones: Config.GetKey returns the table entry itself and nothing assigns KeyConfig.Timestamp / Timestamper", 2)
	for _, f := range keyTimestampSettingsAsConfigured(p) {
		c.Check(f.OK, "R10k", f.Key, f.Pos, "", f.Detail)
	}
}

// insideParam: addr is &param.….X[i]…: reached from a pointer parameter through field and element
// addresses and loads of slice fields only. Returns what breaks the chain, or "".
func insideParam(addr ssa.Value) string {
	v := addr
	for i := 0; i < 20; i++ {
		switch x := v.(type) {
		case *ssa.Parameter:
			return ""
		case *ssa.FieldAddr:
			v = x.X
		case *ssa.IndexAddr:
			v = x.X
		case *ssa.UnOp:
			if x.Op != token.MUL {
				return "an operation on the address"
			}
			v = x.X
		case *ssa.Alloc:
			return "it lives in a local copy made at " + x.Parent().Prog.Fset.Position(x.Pos()).String()
		case *ssa.Call:
			return "it lives in a slice produced by a call (append / copy)"
		case *ssa.Phi:
			for _, e := range x.Edges {
				if r := insideParam(e); r != "" {
					return r
				}
			}
			return ""
		default:
			return fmt.Sprintf("reached through %T", v)
		}
	}
	return "chain too long"
}

// verdictState: functions reachable from a VerifyChain method must not touch package-level maps,
// sync.Maps or slices of the module: the verdict for (certificate, roots, usage, time) must not
// depend on what was verified earlier in the process.
func verdictState(p *Prog) (out []gFinding) {
	var roots []*ssa.Function
	for _, fn := range p.Funcs {
		if fn.Name() == "VerifyChain" && fn.Signature.Recv() != nil {
			roots = append(roots, fn)
		}
		if fn.Name() == "Verify" && fn.Pkg != nil && strings.HasSuffix(fn.Pkg.Pkg.Path(), "ctl/memo") {
			roots = append(roots, fn)
		}
	}
	if len(roots) == 0 {
		return []gFinding{{Key: "VerifyChain methods", Pos: "-", OK: false, Detail: "no VerifyChain method found"}}
	}
	sort.Slice(roots, func(i, j int) bool { return p.FName(roots[i]) < p.FName(roots[j]) })
	for _, root := range roots {
		bad := ""
		n := 0
		for fn := range p.moduleReachOpt([]*ssa.Function{root}, false) {
			n++
			for _, b := range fn.Blocks {
				for _, in := range b.Instrs {
					for _, op := range in.Operands(nil) {
						if op == nil || *op == nil {
							continue
						}
						g, ok := (*op).(*ssa.Global)
						if !ok || g.Pkg == nil || !p.InModule(g.Pkg.Pkg) {
							continue
						}
						ts := derefType(g.Type()).String()
						us := derefType(g.Type()).Underlying().String()
						if ts == "sync.Map" || strings.HasPrefix(us, "map[") {
							// a map that is only read (a constant table) is not state; one that is written anywhere is
							if ts == "sync.Map" || globalIsWritten(p, g) {
								bad = fmt.Sprintf("%s uses %s at %s", p.FName(fn), g.Name(), p.Pos(in.Pos()))
							}
						}
					}
				}
			}
		}
		out = append(out, gFinding{Key: p.FName(root) + " keeps no verdict between calls", Pos: p.Pos(root.Pos()), OK: bad == "",
			Detail: fmt.Sprintf("%d functions on the path; %s", n, map[bool]string{true: "none touches mutable package-level state", false: "package-level state on the path of chain verification (" + bad + "): a verdict reached for one judging time is then reused for another, so a certificate that was valid at a timestamped time is accepted later without (or with a later) timestamp"}[bad == ""])})
	}
	return out
}

// globalIsWritten: some function of the module stores into the map the global holds (after init).
func globalIsWritten(p *Prog, g *ssa.Global) bool {
	for _, fn := range p.Funcs {
		if fn.Name() == "init" {
			continue
		}
		for _, b := range fn.Blocks {
			for _, in := range b.Instrs {
				switch x := in.(type) {
				case *ssa.MapUpdate:
					if l, ok := x.Map.(*ssa.UnOp); ok && l.X == ssa.Value(g) {
						return true
					}
				case *ssa.Store:
					if x.Addr == ssa.Value(g) {
						return true
					}
				}
			}
		}
	}
	return false
}
