package main

// C05, constants that sit in code rather than in tables (R05g-R05j).

import (
	"fmt"
	"go/constant"
	"go/token"
	"go/types"
	"sort"
	"strings"

	"golang.org/x/tools/go/ssa"
)

func c05Code(c *Ctx, ev *c05Eval) {
	c.Rule("R05g", "the PE image hash leaves out exactly CheckSum and the certificate-table directory entry as debug/pe lays them out; 24, 88, 40 and the 8-byte padding are the sizes the PE/COFF structures give", 8)
	c.Rule("R05h", "APK v2 chunk and top-level prefixes, chunk size, block ID and magic are those of the scheme", 5)
	c.Rule("R05i", "CMS signed attributes are added under their RFC 5652 identifiers and digested with the SET OF tag in the order they are emitted in", 4)
	c.Rule("R05j", "RSA-PSS parameters name MGF1 over the same hash with trailer field 1", 3)
	c.Rule("R05k", "JAR signature-file attribute names are the ones the JAR specification defines", 4)
	c.Rule("R05l", "an RFC 3161 request is version 1 and is posted as application/timestamp-query", 2)
	c.Rule("R05m", "the dpkg-sig control block has the fields dpkg-sig reads, in its order, in a member named _gpg<role>", 6)
	c05PE(c)
	c05APK(c)
	c05CMS(c, ev)
	c05PSS(c, ev)
	c05Strings(c)
	c05Names(c, ev)
	c.Rule("R05n", "OpenPGP packet length encoding switches forms at 192 and 8384 (RFC 4880 4.2.2)", 2)
	for _, f := range pgpLengthThresholds(c.P) {
		c.Check(f.OK, "R05n", f.Key, f.Pos, "", f.Detail)
	}
	c.Rule("R05s", "the APK v2 hasher never emits an empty chunk: the partial buffer is emitted only behind a test that it holds bytes", 1)
	for _, f := range apkNoEmptyChunk(c.P) {
		c.Check(f.OK, "R05s", f.Key, f.Pos, "", f.Detail, f.Path...)
	}
	c.Rule("R05t", "the Authenticode page size is 4096, or 8192 for Itanium and Alpha, chosen by the machine type alone", 2)
	for _, f := range pePageSizeFromMachine(c.P) {
		c.Check(f.OK, "R05t", f.Key, f.Pos, "", f.Detail)
	}
	c.Rule("R05p", "an XML signature method is named in the xmldsig# namespace only for RSA keys, and rsa-sha1 never in xmldsig-more# (RFC 3275, RFC 4051)", 2)
	for _, f := range xmldsigNamespaces(c.P, ev) {
		c.Check(f.OK, "R05p", f.Key, f.Pos, "", f.Detail, f.Path...)
	}
	c.Rule("R05q", "the MSI stream order compares min(lenA, lenB)/2 code units of the recorded name lengths, terminator included", 1)
	for _, f := range msiSortBound(c.P) {
		c.Check(f.OK, "R05q", f.Key, f.Pos, "", f.Detail)
	}
	c.Rule("R05r", "a JAR manifest section found by its blank-line delimiter includes the delimiter (conditional on that idiom)", 0)
	fs, idiom := jarSectionsKeepBlankLine(c.P)
	for _, f := range fs {
		c.Check(f.OK, "R05r", f.Key, f.Pos, "", f.Detail)
	}
	if idiom == 0 {
		c.Note("R05r: no manifest section is cut at a searched blank-line delimiter; the rule judges only that idiom and is silent on a splitter of another shape")
	}
}

// ------------------------------------------------------------------------------ R05g

// constSet: the constants v can evaluate to, each with the blocks its phi edge comes from
// (nil for a plain constant). ok is false when v is not built from constants, phis and +/-.
func constSet(v ssa.Value, depth int) (map[int64][]*ssa.BasicBlock, bool) {
	if depth > 10 {
		return nil, false
	}
	switch x := v.(type) {
	case *ssa.Const:
		if k, ok := constInt(x); ok {
			return map[int64][]*ssa.BasicBlock{k: nil}, true
		}
	case *ssa.Convert:
		return constSet(x.X, depth+1)
	case *ssa.ChangeType:
		return constSet(x.X, depth+1)
	case *ssa.Phi:
		out := map[int64][]*ssa.BasicBlock{}
		for i, e := range x.Edges {
			s, ok := constSet(e, depth+1)
			if !ok {
				return nil, false
			}
			for k, bs := range s {
				if bs == nil {
					bs = []*ssa.BasicBlock{x.Block().Preds[i]}
				}
				out[k] = append(out[k], bs...)
			}
		}
		return out, true
	case *ssa.BinOp:
		if x.Op != token.ADD && x.Op != token.SUB {
			return nil, false
		}
		a, ok1 := constSet(x.X, depth+1)
		b, ok2 := constSet(x.Y, depth+1)
		if !ok1 || !ok2 {
			return nil, false
		}
		out := map[int64][]*ssa.BasicBlock{}
		for ka, ba := range a {
			for kb, bb := range b {
				k := ka + kb
				if x.Op == token.SUB {
					k = ka - kb
				}
				bs := ba
				if bs == nil {
					bs = bb
				}
				out[k] = append(out[k], bs...)
			}
		}
		return out, true
	}
	return nil, false
}

func (p *Prog) stdType(pkgPath, name string) types.Type {
	pk := p.ByPath[pkgPath]
	if pk == nil || pk.Types == nil {
		return nil
	}
	obj := pk.Types.Scope().Lookup(name)
	if obj == nil {
		return nil
	}
	return obj.Type()
}

func (p *Prog) stdConst(pkgPath, name string) (int64, bool) {
	pk := p.ByPath[pkgPath]
	if pk == nil || pk.Types == nil {
		return 0, false
	}
	cst, ok := pk.Types.Scope().Lookup(name).(*types.Const)
	if !ok || cst.Val().Kind() != constant.Int {
		return 0, false
	}
	return constant.Int64Val(cst.Val())
}

func c05PE(c *Ctx) {
	p := c.P
	oh32, oh64 := p.stdType("debug/pe", "OptionalHeader32"), p.stdType("debug/pe", "OptionalHeader64")
	fh, sh, dd := p.stdType("debug/pe", "FileHeader"), p.stdType("debug/pe", "SectionHeader32"), p.stdType("debug/pe", "DataDirectory")
	secIdx, okIdx := p.stdConst("debug/pe", "IMAGE_DIRECTORY_ENTRY_SECURITY")
	if oh32 == nil || oh64 == nil || fh == nil || sh == nil || dd == nil || !okIdx {
		c.Undecided("R05g", "debug/pe reference types", "-", "debug/pe is not among the loaded packages")
		return
	}
	sp32, _ := fieldSpans(oh32)
	sp64, _ := fieldSpans(oh64)
	fhSize, _ := wireSize(fh)
	shSize, _ := wireSize(sh)
	ddSize, _ := wireSize(dd)
	ck32, ck64 := sp32["CheckSum"], sp64["CheckSum"]
	ref := map[string]int64{
		"pe32 dd": sp32["DataDirectory"][0] + secIdx*ddSize,
		"pe64 dd": sp64["DataDirectory"][0] + secIdx*ddSize,
	}
	c.Note("R05g reference from debug/pe: CheckSum at %d..%d (PE32) %d..%d (PE32+), DataDirectory[%d] at %d (PE32) %d (PE32+), %d bytes; file header %d, section header %d", ck32[0], ck32[1], ck64[0], ck64[1], secIdx, ref["pe32 dd"], ref["pe64 dd"], ddSize, fhSize, shSize)
	c.Check(ck32 == ck64, "R05g", "CheckSum has one offset in both optional header layouts", "-", "", "debug/pe lays CheckSum out differently in the two optional headers; the rule below assumes one offset")

	fn := p.Func("lib/authenticode.readOptHeader")
	if fn == nil {
		c.Undecided("R05g", "lib/authenticode.readOptHeader", "-", "function not found")
		return
	}
	c.Analysed(p.FName(fn))
	// the buffer holding the optional header and the pieces of it that are written to the digest
	type piece struct {
		lo, hi ssa.Value
		pos    token.Pos
	}
	var pieces []piece
	for _, b := range fn.Blocks {
		for _, in := range b.Instrs {
			call, ok := in.(*ssa.Call)
			if !ok || !call.Common().IsInvoke() || call.Common().Method.Name() != "Write" {
				continue
			}
			sl, ok := call.Common().Args[0].(*ssa.Slice)
			if !ok {
				continue
			}
			if _, isMake := sl.X.(*ssa.MakeSlice); !isMake {
				continue
			}
			pieces = append(pieces, piece{sl.Low, sl.High, sl.Pos()})
		}
	}
	if len(pieces) != 3 {
		c.Undecided("R05g", "readOptHeader digests the optional header in three pieces", p.Pos(fn.Pos()), fmt.Sprintf("%d slices of the header buffer are written to the digest; the rule knows the shape head / middle / tail around the two skipped fields", len(pieces)))
		return
	}
	sort.Slice(pieces, func(i, j int) bool { return pieces[i].pos < pieces[j].pos })
	one := func(v ssa.Value) (int64, bool) {
		s, ok := constSet(v, 0)
		if !ok || len(s) != 1 {
			return 0, false
		}
		for k := range s {
			return k, true
		}
		return 0, false
	}
	// piece 1: [0, CheckSum)
	hi1, ok1 := one(pieces[0].hi)
	lo1ok := pieces[0].lo == nil || isIntConst(pieces[0].lo, 0)
	c.Check(ok1 && lo1ok && hi1 == ck32[0], "R05g", "header is hashed up to CheckSum", p.Pos(pieces[0].pos), fmt.Sprintf("[0:%d]", hi1),
		fmt.Sprintf("the first piece of the optional header that is hashed ends at %d; CheckSum starts at %d in debug/pe's layout: the image hash then covers part of the checksum (which changes when the file is signed) or skips bytes in front of it, and no Authenticode verifier computes the same hash", hi1, ck32[0]))
	// piece 2: [CheckSum end, directory entry)
	lo2, ok2 := one(pieces[1].lo)
	c.Check(ok2 && lo2 == ck32[1], "R05g", "hashing resumes right after CheckSum", p.Pos(pieces[1].pos), fmt.Sprintf("[%d:", lo2),
		fmt.Sprintf("hashing resumes at %d; CheckSum ends at %d", lo2, ck32[1]))
	his, ok3 := constSet(pieces[1].hi, 0)
	los, ok4 := constSet(pieces[2].lo, 0)
	if !ok3 || !ok4 {
		c.Undecided("R05g", "directory entry offsets", p.Pos(pieces[1].pos), "the bounds around the certificate-table entry are not built from constants")
		return
	}
	// bind each possible offset to the optional header type decoded on the path it comes from
	headerOn := func(bs []*ssa.BasicBlock) string {
		kinds := map[string]bool{}
		for _, pb := range bs {
			for _, b := range fn.Blocks {
				if !(b == pb || b.Dominates(pb)) {
					continue
				}
				for _, in := range b.Instrs {
					if a, ok := in.(*ssa.Alloc); ok {
						switch {
						case types.Identical(derefType(a.Type()), oh32):
							kinds["pe32 dd"] = true
						case types.Identical(derefType(a.Type()), oh64):
							kinds["pe64 dd"] = true
						}
					}
				}
			}
		}
		if len(kinds) != 1 {
			return ""
		}
		for k := range kinds {
			return k
		}
		return ""
	}
	var offs []int64
	for k := range his {
		offs = append(offs, k)
	}
	sort.Slice(offs, func(i, j int) bool { return offs[i] < offs[j] })
	bound := 0
	for _, off := range offs {
		kind := headerOn(his[off])
		key := fmt.Sprintf("certificate-table entry skipped at %d", off)
		if kind == "" {
			c.Undecided("R05g", key, p.Pos(pieces[1].pos), "cannot tell which optional header layout this offset belongs to (no OptionalHeader32/64 decoded on the path it comes from)")
			continue
		}
		bound++
		c.Check(off == ref[kind], "R05g", fmt.Sprintf("certificate-table entry offset (%s)", strings.TrimSuffix(kind, " dd")), p.Pos(pieces[1].pos), fmt.Sprint(off),
			fmt.Sprintf("on the %s path the hash stops at offset %d of the optional header; debug/pe puts DataDirectory[%d] (IMAGE_DIRECTORY_ENTRY_SECURITY) at %d: the entry that is rewritten when the signature is attached is hashed, or a neighbouring entry is left out, and signtool / osslsigncode compute a different image hash", strings.TrimSuffix(kind, " dd"), off, secIdx, ref[kind]))
		_, resumes := los[off+ddSize]
		c.Check(resumes, "R05g", fmt.Sprintf("hashing resumes %d bytes after the entry (%s)", ddSize, strings.TrimSuffix(kind, " dd")), p.Pos(pieces[2].pos), "", fmt.Sprintf("after the entry at %d hashing does not resume at %d (a data directory entry is %d bytes)", off, off+ddSize, ddSize))
	}
	if bound < 2 {
		c.Undecided("R05g", "both optional header layouts are handled", p.Pos(fn.Pos()), fmt.Sprintf("%d of 2 layouts recognised", bound))
	}
	// the directory index read for certStart/certSize
	for _, b := range fn.Blocks {
		for _, in := range b.Instrs {
			ia, ok := in.(*ssa.IndexAddr)
			if !ok {
				continue
			}
			if tn, f, _ := p.fieldAddr(ia.X); strings.HasPrefix(tn, "debug/pe.OptionalHeader") && f == "DataDirectory" {
				k, isK := constInt(ia.Index)
				c.Check(isK && k == secIdx, "R05g", "certificate table read from DataDirectory["+fmt.Sprint(k)+"] of "+tn, p.Pos(ia.Pos()), "", fmt.Sprintf("the existing signature is looked up in DataDirectory[%d]; the certificate table is entry %d", k, secIdx))
			}
		}
	}
	// peStart + 24
	want24 := 4 + fhSize
	for _, b := range fn.Blocks {
		for _, in := range b.Instrs {
			bo, ok := in.(*ssa.BinOp)
			if !ok || bo.Op != token.ADD {
				continue
			}
			k, isK := constInt(bo.Y)
			if !isK || k < 8 {
				continue
			}
			if pa, isP := stripConv(bo.X).(*ssa.Parameter); isP && intWidth(pa.Type()) > 0 {
				c.Check(k == want24, "R05g", fmt.Sprintf("%s: optional header starts %d bytes after the PE signature offset", p.FName(fn), k), p.Pos(bo.Pos()), "", fmt.Sprintf("%d is added to the PE header offset; the signature (4) and debug/pe.FileHeader (%d) make %d: the section table and the directory entry to patch are looked for in the wrong place", k, fhSize, want24))
			}
		}
	}
	// checksum position: peStart + 88
	want88 := 4 + fhSize + ck32[0]
	n88 := 0
	for _, name := range []string{"lib/authenticode.FixPEChecksum", "lib/authenticode.NewPEChecksum"} {
		f2 := p.Func(name)
		if f2 == nil {
			c.Undecided("R05g", name, "-", "function not found")
			continue
		}
		c.Analysed(p.FName(f2))
		for _, b := range f2.Blocks {
			for _, in := range b.Instrs {
				bo, ok := in.(*ssa.BinOp)
				if !ok || bo.Op != token.ADD {
					continue
				}
				k, isK := constInt(bo.Y)
				if !isK || k < 8 {
					continue
				}
				n88++
				c.Check(k == want88, "R05g", fmt.Sprintf("%s: checksum field at PE header + %d", p.FName(f2), k), p.Pos(bo.Pos()), "", fmt.Sprintf("the checksum is skipped / written at PE header + %d; the field is at 4 + %d + %d = %d: the checksum is computed over itself or stored over a neighbouring field, and loaders that check it (drivers, boot images) reject the file", k, fhSize, ck32[0], want88))
			}
		}
	}
	if n88 < 2 {
		c.Undecided("R05g", "checksum position constants", "-", fmt.Sprintf("%d of 2 found", n88))
	}
	// section header size
	if f3 := p.Func("lib/authenticode.readSections"); f3 != nil {
		c.Analysed(p.FName(f3))
		found := false
		for _, b := range f3.Blocks {
			for _, in := range b.Instrs {
				bo, ok := in.(*ssa.BinOp)
				if !ok || bo.Op != token.MUL {
					continue
				}
				k, isK := constInt(bo.Y)
				if !isK {
					k, isK = constInt(bo.X)
				}
				if !isK || k < 8 {
					continue
				}
				found = true
				c.Check(k == shSize, "R05g", fmt.Sprintf("section table is NumberOfSections * %d bytes", k), p.Pos(bo.Pos()), "", fmt.Sprintf("a section header is taken to be %d bytes; debug/pe.SectionHeader32 is %d", k, shSize))
			}
		}
		if !found {
			c.Undecided("R05g", "section header size", p.Pos(f3.Pos()), "no NumberOfSections * constant found")
		}
	}
	// padding to 8
	if f4 := p.Func("lib/authenticode.DigestPE"); f4 != nil {
		c.Analysed(p.FName(f4))
		found := false
		for _, b := range f4.Blocks {
			for _, in := range b.Instrs {
				bo, ok := in.(*ssa.BinOp)
				if !ok || bo.Op != token.REM {
					continue
				}
				if k, isK := constInt(bo.Y); isK {
					found = true
					c.Check(k == 8, "R05g", fmt.Sprintf("image padded to a multiple of %d before the certificate table", k), p.Pos(bo.Pos()), "", "the Authenticode specification aligns the certificate table to 8 bytes and hashes the padding")
				}
			}
		}
		if !found {
			c.Undecided("R05g", "padding in DigestPE", p.Pos(f4.Pos()), "no remainder by a constant found")
		}
	}
}

// ------------------------------------------------------------------------------ R05h

func c05APK(c *Ctx) {
	p := c.P
	fns := p.pkgFuncs("signers/apk")
	if len(fns) == 0 {
		c.Undecided("R05h", "signers/apk", "-", "package not found")
		return
	}
	nPrefix, nChunk, nID, nMagic := 0, 0, 0, 0
	for _, fn := range fns {
		for _, b := range fn.Blocks {
			for _, in := range b.Instrs {
				switch x := in.(type) {
				case *ssa.Store:
					// pref[0] = K
					ia, ok := x.Addr.(*ssa.IndexAddr)
					if !ok || !isIntConst(ia.Index, 0) {
						continue
					}
					arr, ok := ia.X.(*ssa.Alloc)
					if !ok {
						continue
					}
					at, ok := derefType(arr.Type()).Underlying().(*types.Array)
					if !ok || at.Len() != 5 {
						continue
					}
					k, isK := constInt(x.Val)
					if !isK {
						continue
					}
					// what is written behind the prefix byte?
					role := ""
					for _, ci := range p.callsIn(fn, "(encoding/binary.littleEndian).PutUint32") {
						sl, ok := ci.Common().Args[1].(*ssa.Slice)
						if !ok || sl.X != ssa.Value(arr) {
							continue
						}
						v := stripConv(ci.Common().Args[2])
						for {
							cv, isConv := v.(*ssa.Convert)
							if !isConv {
								break
							}
							v = stripConv(cv.X)
						}
						if call, ok := v.(*ssa.Call); ok {
							if bi, ok := call.Call.Value.(*ssa.Builtin); ok && bi.Name() == "len" {
								role = "chunk"
								continue
							}
						}
						role = "top"
					}
					if role == "" {
						continue
					}
					nPrefix++
					want := int64(0xa5)
					what := "a chunk (followed by the chunk's length)"
					if role == "top" {
						want = 0x5a
						what = "the top level (followed by the number of chunks)"
					}
					c.Analysed(p.FName(fn))
					c.Check(k == want, "R05h", fmt.Sprintf("%s prefix byte of %s", p.FName(fn), role), p.Pos(x.Pos()), fmt.Sprintf("0x%02x", k), fmt.Sprintf("the digest of %s is prefixed with 0x%02x; the APK Signature Scheme v2 prescribes 0x%02x: Android computes a different content digest and rejects the APK", what, k, want))
				case *ssa.Call:
					if p.calleeName(x.Common()) == "(encoding/binary.littleEndian).PutUint32" {
						if k, isK := constInt(x.Common().Args[2]); isK && k > 0xffff {
							nID++
							c.Check(k == 0x7109871a, "R05h", fmt.Sprintf("%s block ID", p.FName(fn)), p.Pos(x.Pos()), fmt.Sprintf("0x%08x", k), fmt.Sprintf("the signing block entry is written with ID 0x%08x; the APK Signature Scheme v2 block is 0x7109871a", k))
						}
					}
				}
				// string constants
				if v, ok := in.(ssa.Value); ok {
					_ = v
				}
				for _, op := range in.Operands(nil) {
					if op == nil || *op == nil {
						continue
					}
					if s, ok := constString(*op); ok && strings.HasPrefix(s, "APK Sig") {
						nMagic++
						c.Check(s == "APK Sig Block 42", "R05h", fmt.Sprintf("%s magic#%d", p.FName(fn), nMagic), p.Pos(in.Pos()), s, "the signing block magic is not \"APK Sig Block 42\"")
					}
					// chunk size: large integer constants in the chunk hasher
					if recv := fn.Signature.Recv(); (recv != nil && strings.Contains(recv.Type().String(), "merkleHasher")) || strings.Contains(fn.Name(), "erkleHasher") {
						if k, ok := constInt(*op); ok && k >= 1<<16 && k < 1<<32 {
							nChunk++
							c.Check(k == 1<<20, "R05h", fmt.Sprintf("%s chunk size#%d", p.FName(fn), nChunk), p.Pos(in.Pos()), fmt.Sprint(k), fmt.Sprintf("the content is digested in chunks of %d bytes; the scheme prescribes 1 MiB (1048576)", k))
						}
					}
				}
			}
		}
	}
	if nPrefix < 2 || nChunk < 1 || nID < 1 || nMagic < 1 {
		c.Undecided("R05h", "APK v2 constants located", "-", fmt.Sprintf("prefix bytes %d (2 expected), chunk size uses %d, block ID %d, magic %d", nPrefix, nChunk, nID, nMagic))
	}
}

// ------------------------------------------------------------------------------ R05i

func (ev *c05Eval) globalOID(v ssa.Value) string {
	u, ok := stripConv(v).(*ssa.UnOp)
	if !ok || u.Op != token.MUL {
		return ""
	}
	g, ok := u.X.(*ssa.Global)
	if !ok {
		return ""
	}
	obj, ok := g.Object().(*types.Var)
	if !ok {
		return ""
	}
	def := ev.vars[obj]
	if def == nil {
		return ""
	}
	return ev.eval(def.pk, def.init, 0).oidString()
}

func c05CMS(c *Ctx, ev *c05Eval) {
	p := c.P
	n := 0
	for _, fn := range p.pkgFuncs("lib/pkcs7") {
		for _, ci := range p.callsIn(fn, "(*lib/pkcs7.AttributeList).Add") {
			args := ci.Common().Args
			if len(args) < 3 {
				continue
			}
			mi, ok := args[2].(*ssa.MakeInterface)
			if !ok {
				continue
			}
			want, role := "", ""
			switch {
			case isNamed(mi.X.Type(), "encoding/asn1", "ObjectIdentifier"):
				want, role = "1.2.840.113549.1.9.3", "contentType (an object identifier value)"
			case isNamed(mi.X.Type(), "time", "Time"):
				want, role = "1.2.840.113549.1.9.5", "signingTime (a time value)"
			case mi.X.Type().String() == "[]byte":
				want, role = "1.2.840.113549.1.9.4", "messageDigest (an octet string value)"
			default:
				continue
			}
			got := ev.globalOID(args[1])
			if got == "" {
				continue
			}
			n++
			c.Analysed(p.FName(fn))
			c.Check(got == want, "R05i", fmt.Sprintf("%s adds %s", p.FName(fn), role), p.Pos(ci.Pos()), got, fmt.Sprintf("the attribute carrying %s is added under %s; RFC 5652 section 11 assigns %s: OpenSSL's CMS verification does not find the attribute it requires and rejects every signature, relic's verifier looks under the same wrong identifier and accepts", role, got, want))
		}
	}
	if n < 2 {
		c.Undecided("R05i", "signed attributes added by lib/pkcs7", "-", fmt.Sprintf("%d attribute additions with a typed value found (contentType and messageDigest expected)", n))
	}
	// SET OF tag on the bytes that are digested
	found := false
	for _, fn := range p.pkgFuncs("lib/pkcs7") {
		if len(p.callsIn(fn, "encoding/asn1.Marshal")) == 0 {
			continue
		}
		for _, b := range fn.Blocks {
			for _, in := range b.Instrs {
				st, ok := in.(*ssa.Store)
				if !ok {
					continue
				}
				ia, ok := st.Addr.(*ssa.IndexAddr)
				if !ok || !isIntConst(ia.Index, 0) {
					continue
				}
				if ex, ok := ia.X.(*ssa.Extract); !ok || ex.Index != 0 {
					continue
				}
				found = true
				okTag := false
				if k, isK := constInt(st.Val); isK && k == 0x31 {
					okTag = true
				}
				if bo, ok := st.Val.(*ssa.BinOp); ok && bo.Op == token.OR {
					if k, isK := constInt(bo.Y); isK && k&1 == 1 && k&^0x31 == 0 {
						okTag = true
					}
				}
				c.Analysed(p.FName(fn))
				c.Check(okTag, "R05i", p.FName(fn)+" turns the SEQUENCE tag into SET OF", p.Pos(st.Pos()), "", "the first byte of the encoded attributes is not made 0x31 (SET OF): RFC 5652 5.4 digests the attributes under the SET OF tag, so every other implementation computes a different signed digest")
			}
		}
	}
	if !found {
		c.Undecided("R05i", "SET OF tag", "-", "no function of lib/pkcs7 that marshals and then rewrites the first byte was found (marshalUnsortedSet did)")
	}
	// the attributes are digested in the order in which they are emitted: the list is written out
	// as it stands (no `set` parameter on the field, which would sort), so nothing on the way to the
	// digested bytes may reorder it either
	var roots []*ssa.Function
	for _, name := range []string{"lib/pkcs7.(*AttributeList).Bytes", "lib/pkcs7.(SignerInfo).AuthenticatedAttributesBytes"} {
		if f := p.Func(name); f != nil {
			roots = append(roots, f)
		}
	}
	if len(roots) < 2 {
		c.Undecided("R05i", "attribute digest functions", "-", "AttributeList.Bytes / SignerInfo.AuthenticatedAttributesBytes not found")
		return
	}
	var reach []*ssa.Function
	for f := range p.moduleReachOpt(roots, false) {
		reach = append(reach, f)
	}
	sort.Slice(reach, func(i, j int) bool { return p.FName(reach[i]) < p.FName(reach[j]) })
	bad := ""
	for _, f := range reach {
		c.Analysed(p.FName(f))
		for _, b := range f.Blocks {
			for _, in := range b.Instrs {
				ci, ok := in.(ssa.CallInstruction)
				if !ok {
					continue
				}
				name := p.calleeName(ci.Common())
				switch {
				case strings.HasPrefix(name, "sort.") || strings.HasPrefix(name, "slices.Sort"):
					bad = fmt.Sprintf("%s calls %s at %s", p.FName(f), name, p.Pos(in.Pos()))
				case name == "encoding/asn1.MarshalWithParams":
					if prm, ok := constString(ci.Common().Args[1]); ok && strings.Contains(prm, "set") {
						bad = fmt.Sprintf("%s marshals with the `set` parameter (which sorts) at %s", p.FName(f), p.Pos(in.Pos()))
					}
				}
			}
		}
	}
	c.Check(bad == "", "R05i", "the attributes are digested in the order they are emitted in", p.Pos(roots[0].Pos()), fmt.Sprintf("%d functions on the digest path, none reorders", len(reach)),
		"the bytes the signature is computed over are put in a different order than the attributes have in the message ("+bad+"): RFC 5652 5.4 digests the DER encoding of the signedAttrs field as it is sent, so OpenSSL recomputes the digest over the emitted order and reports a bad signature whenever that order is not already sorted")
}

// ------------------------------------------------------------------------------ R05j

func c05PSS(c *Ctx, ev *c05Eval) {
	p := c.P
	fn := p.Func("lib/x509tools.MarshalRSAPSSParameters")
	if fn == nil {
		c.Undecided("R05j", "x509tools.MarshalRSAPSSParameters", "-", "function not found")
		return
	}
	c.Analysed(p.FName(fn))
	var hashVal ssa.Value
	trailer, mgf := false, ""
	var mgfParams ssa.Value
	for _, b := range fn.Blocks {
		for _, in := range b.Instrs {
			st, ok := in.(*ssa.Store)
			if !ok {
				continue
			}
			tn, f, base := p.fieldAddr(st.Addr)
			switch {
			case strings.HasSuffix(tn, "x509tools.pssParameters") && f == "TrailerField":
				trailer = isIntConst(st.Val, 1)
			case strings.HasSuffix(tn, "x509tools.pssParameters") && f == "Hash":
				hashVal = st.Val
			case strings.HasSuffix(tn, "pkix.AlgorithmIdentifier") && f == "Algorithm":
				if tn2, f2, _ := p.fieldAddr(base); strings.HasSuffix(tn2, "x509tools.pssParameters") && f2 == "MGF" {
					mgf = ev.globalOID(st.Val)
				}
			case strings.HasSuffix(tn, "asn1.RawValue") && f == "FullBytes":
				mgfParams = st.Val
			}
		}
	}
	c.Check(trailer, "R05j", "trailerField is 1", p.Pos(fn.Pos()), "", "RFC 4055 3.1: trailerField must be 1 (0xBC)")
	c.Check(mgf == "1.2.840.113549.1.1.8", "R05j", "mask generation function is MGF1", p.Pos(fn.Pos()), mgf, "maskGenAlgorithm is "+mgf+", RFC 4055 names id-mgf1 1.2.840.113549.1.1.8")
	same := false
	if hashVal != nil && mgfParams != nil {
		// the MGF parameter bytes are the encoding of the very AlgorithmIdentifier stored as hashAlgorithm
		same = dependsOn(mgfParams, func(x ssa.Value) bool {
			call, ok := x.(*ssa.Call)
			if !ok || p.calleeName(call.Common()) != "encoding/asn1.Marshal" {
				return false
			}
			return dependsOn(call.Call.Args[0], func(y ssa.Value) bool { return y == stripConv(hashVal) || y == hashVal })
		})
	}
	c.Check(same, "R05j", "MGF1 is parameterised with the signature's hash", p.Pos(fn.Pos()), "", "the hash named in maskGenAlgorithm is not the encoding of hashAlgorithm: OpenSSL and the JDK reject PSS signatures whose two hashes differ (and relic's own parser does too)")
}

// ------------------------------------------------------------------------------ R05k-m

// orderedStringConsts: constant string operands of the instructions of fn, in source order.
func orderedStringConsts(p *Prog, fn *ssa.Function) (out []struct {
	s  string
	in ssa.Instruction
}) {
	type item = struct {
		s  string
		in ssa.Instruction
	}
	var items []item
	for _, b := range fn.Blocks {
		for _, in := range b.Instrs {
			for _, op := range in.Operands(nil) {
				if op == nil || *op == nil {
					continue
				}
				if s, ok := constString(*op); ok {
					items = append(items, item{s, in})
				}
			}
		}
	}
	sort.SliceStable(items, func(i, j int) bool { return items[i].in.Pos() < items[j].in.Pos() })
	for _, it := range items {
		out = append(out, struct {
			s  string
			in ssa.Instruction
		}{it.s, it.in})
	}
	return out
}

func c05Strings(c *Ctx) {
	p := c.P
	// R05k: JAR
	if fn := p.Func("lib/signjar.DigestManifest"); fn == nil {
		c.Undecided("R05k", "signjar.DigestManifest", "-", "function not found")
	} else {
		c.Analysed(p.FName(fn))
		allowed := map[string]bool{"-Digest": true, "-Digest-Manifest": true, "-Digest-Manifest-Main-Attributes": true}
		seen := map[string]bool{}
		for _, it := range orderedStringConsts(p, fn) {
			switch {
			case strings.HasPrefix(it.s, "-Digest"):
				seen[it.s] = true
				c.Check(allowed[it.s], "R05k", "digest attribute suffix "+it.s, p.Pos(it.in.Pos()), "", fmt.Sprintf("the signature file names a digest attribute <alg>%s; the JAR specification defines <alg>-Digest, <alg>-Digest-Manifest and <alg>-Digest-Manifest-Main-Attributes: jarsigner ignores attributes it does not know and reports the entries as unsigned", it.s))
			case strings.HasPrefix(it.s, "Signature-Version"):
				seen["Signature-Version"] = true
				c.Check(it.s == "Signature-Version", "R05k", "signature file starts with Signature-Version", p.Pos(it.in.Pos()), "", "the main attribute of a .SF file is Signature-Version")
			case it.s == "1.0":
				seen["1.0"] = true
			}
		}
		for _, want := range []string{"-Digest", "-Digest-Manifest-Main-Attributes", "Signature-Version", "1.0"} {
			if !seen[want] {
				c.Fail("R05k", "signature file writes "+want, p.Pos(fn.Pos()), "DigestManifest no longer writes "+want+": a .SF file needs Signature-Version: 1.0, a digest of the main attributes and one <alg>-Digest per section")
			}
		}
	}
	// R05l: RFC 3161
	n := 0
	for _, fn := range p.pkgFuncs("lib/pkcs9") {
		// the function that builds a TimeStampReq
		builds := false
		for _, b := range fn.Blocks {
			for _, in := range b.Instrs {
				if a, ok := in.(*ssa.Alloc); ok && strings.HasSuffix(derefType(a.Type()).String(), "pkcs9.TimeStampReq") {
					builds = true
				}
			}
		}
		if !builds {
			continue
		}
		for _, b := range fn.Blocks {
			for _, in := range b.Instrs {
				if st, ok := in.(*ssa.Store); ok {
					if tn, f, _ := p.fieldAddr(st.Addr); strings.HasSuffix(tn, "pkcs9.TimeStampReq") && f == "Version" {
						n++
						c.Analysed(p.FName(fn))
						c.Check(isIntConst(st.Val, 1), "R05l", p.FName(fn)+" request version", p.Pos(st.Pos()), "", "RFC 3161 2.4.1: the request version is 1; a timestamp authority rejects anything else")
					}
				}
			}
		}
		for _, ci := range p.callsIn(fn, "(net/http.Header).Set") {
			if k, ok := constString(ci.Common().Args[1]); ok && k == "Content-Type" {
				v, _ := constString(ci.Common().Args[2])
				n++
				c.Check(v == "application/timestamp-query", "R05l", p.FName(fn)+" content type", p.Pos(ci.Pos()), v, fmt.Sprintf("the request is posted as %q; RFC 3161 3.4 prescribes application/timestamp-query and authorities answer anything else with an HTTP error", v))
			}
		}
	}
	if n < 2 {
		c.Undecided("R05l", "RFC 3161 request builder", "-", fmt.Sprintf("%d facts found (version and content type expected)", n))
	}
	// R05m: dpkg-sig
	if fn := p.Func("lib/signdeb.Sign"); fn == nil {
		c.Undecided("R05m", "signdeb.Sign", "-", "function not found")
	} else {
		c.Analysed(p.FName(fn))
		want := []string{"Version: 4", "Signer:", "Date:", "Role:", "Files: "}
		var got []string
		prefix := ""
		for _, it := range orderedStringConsts(p, fn) {
			for _, w := range []string{"Version:", "Signer:", "Date:", "Role:", "Files:"} {
				if strings.HasPrefix(it.s, w) {
					got = append(got, it.s)
				}
			}
			if strings.HasPrefix(it.s, "_gpg") && prefix == "" {
				prefix = it.s
			}
		}
		for i, w := range want {
			g := ""
			if i < len(got) {
				g = got[i]
			}
			c.Check(g == w, "R05m", fmt.Sprintf("control block line %d is %q", i+1, w), p.Pos(fn.Pos()), g, fmt.Sprintf("line %d of the signed control block is %q; dpkg-sig writes and reads %q at that place (Version: 4, Signer, Date, Role, Files): dpkg-sig --verify does not recognise the member", i+1, g, w))
		}
		c.Check(prefix == "_gpg", "R05m", "signature member is named _gpg<role>", p.Pos(fn.Pos()), prefix, "dpkg-sig looks for archive members named _gpg followed by the role")
	}
}

// ------------------------------------------------------------------------------ R05o

// names the formats prescribe, bound by the name the code gives the constant (lower-cased)
var refNamedStrings = map[string]string{
	"msidigitalsignature":   "\x05DigitalSignature",
	"msidigitalsignatureex": "\x05MsiDigitalSignatureEx",
	"psbegin":               "SIG # Begin signature block",
	"psend":                 "SIG # End signature block",
	"appxsignature":         "AppxSignature.p7x",
	"appxblockmap":          "AppxBlockMap.xml",
	"appxcontenttypes":      "[Content_Types].xml",
	"appxcodeintegrity":     "AppxMetadata/CodeIntegrity.cat",
	"appxmanifest":          "AppxManifest.xml",
	"bundlemanifestfile":    "AppxMetadata/AppxBundleManifest.xml",
	"manifestname":          "META-INF/MANIFEST.MF",
	"metainf":               "META-INF/",
}

func c05Names(c *Ctx, ev *c05Eval) {
	p := c.P
	c.Rule("R05o", "stream, member and marker names the formats prescribe have the prescribed spelling; the appx digest blob and the JAR block extension follow the specifications", 16)
	// named string constants
	var paths []string
	for path, pk := range p.ByPath {
		if pk.Types != nil && p.InModule(pk.Types) {
			paths = append(paths, path)
		}
	}
	sort.Strings(paths)
	for _, path := range paths {
		scope := p.ByPath[path].Types.Scope()
		for _, name := range scope.Names() {
			cst, ok := scope.Lookup(name).(*types.Const)
			if !ok || cst.Val().Kind() != constant.String {
				continue
			}
			want, known := refNamedStrings[strings.ToLower(name)]
			if !known {
				continue
			}
			got := constant.StringVal(cst.Val())
			key := p.Rel(path) + "." + name
			c.Analysed(key)
			c.Check(got == want, "R05o", key, p.Pos(cst.Pos()), fmt.Sprintf("%q", got), fmt.Sprintf("%s is %q; the format calls that item %q: what relic writes under the other name is invisible to the platform's verifier (and an existing signature under the real name is not found when re-signing)", key, got, want))
		}
	}
	// the same for package-level variables initialised with a constant string
	for _, v := range ev.list {
		want, known := refNamedStrings[strings.ToLower(v.obj.Name())]
		if !known {
			continue
		}
		val := ev.eval(v.pk, v.init, 0)
		if val.kind != "string" {
			continue
		}
		key := ev.varName(v)
		c.Analysed(key)
		c.Check(val.s == want, "R05o", key, p.Pos(val.pos), fmt.Sprintf("%q", val.s), fmt.Sprintf("%s is %q; the format calls that item %q: what relic writes under the other name is invisible to the platform's verifier (and an existing signature under the real name is not found when re-signing)", key, val.s, want))
	}
	// the appx signature digest blob: APPX, then AXPC AXCD AXCT AXBM and optionally AXCI, in that order
	for _, fn := range p.pkgFuncs("lib/signappx") {
		var tags []string
		var first ssa.Instruction
		for _, ci := range p.callsIn(fn, "(*bytes.Buffer).WriteString") {
			if s, ok := constString(ci.Common().Args[1]); ok && len(s) == 4 && (strings.HasPrefix(s, "AX") || s == "APPX") {
				tags = append(tags, s)
				if first == nil {
					first = ci
				}
			}
		}
		if len(tags) == 0 {
			continue
		}
		c.Analysed(p.FName(fn))
		want := "APPX AXPC AXCD AXCT AXBM AXCI"
		c.Check(strings.Join(tags, " ") == want, "R05o", p.FName(fn)+" digest blob layout", p.Pos(first.Pos()), strings.Join(tags, " "), fmt.Sprintf("the signed digest blob of an appx is written as %q; the package format is %q (header, then the hashes of the zip contents, central directory, content types, block map and code integrity, each behind its tag): Windows recomputes the blob in its own order and rejects the package", strings.Join(tags, " "), want))
		magic := false
		for _, b := range fn.Blocks {
			for _, in := range b.Instrs {
				for _, op := range in.Operands(nil) {
					if op != nil && *op != nil {
						if s, ok := constString(*op); ok && s == "PKCX" {
							magic = true
						}
					}
				}
			}
		}
		c.Check(magic, "R05o", p.FName(fn)+" p7x magic", p.Pos(first.Pos()), "PKCX", "AppxSignature.p7x does not start with the PKCX magic")
	}
	// JAR: the signature block file is named after the key type
	if fn := p.Func("lib/signjar.sigNames"); fn == nil {
		c.Undecided("R05o", "signjar.sigNames", "-", "function not found")
	} else {
		c.Analysed(p.FName(fn))
		want := map[string]string{"*crypto/rsa.PublicKey": ".RSA", "*crypto/ecdsa.PublicKey": ".EC", "*crypto/dsa.PublicKey": ".DSA"}
		n := 0
		for _, b := range fn.Blocks {
			for _, in := range b.Instrs {
				ta, ok := in.(*ssa.TypeAssert)
				if !ok {
					continue
				}
				ext, known := want[ta.AssertedType.String()]
				if !known {
					continue
				}
				// the success side of this test
				var okv ssa.Value
				for _, r := range *ta.Referrers() {
					if ex, ok := r.(*ssa.Extract); ok && ex.Index == 1 {
						okv = ex
					}
				}
				var side *ssa.BasicBlock
				if okv != nil {
					for _, r := range *okv.Referrers() {
						if ifi, ok := r.(*ssa.If); ok {
							side = ifi.Block().Succs[0]
						}
					}
				}
				if side == nil {
					continue
				}
				got := ""
				for _, sin := range side.Instrs {
					if bo, ok := sin.(*ssa.BinOp); ok && bo.Op == token.ADD {
						if s, ok := constString(bo.Y); ok && strings.HasPrefix(s, ".") {
							got = s
						}
					}
				}
				n++
				c.Check(got == ext, "R05o", "signature block extension for "+ta.AssertedType.String(), p.Pos(ta.Pos()), got, fmt.Sprintf("a signature made with a %s is stored as META-INF/<alias>%s; the JAR specification (and jarsigner's lookup) uses %s for that key type, so the JDK does not find the signature block and treats the archive as unsigned", ta.AssertedType, got, ext))
			}
		}
		if n < 2 {
			c.Undecided("R05o", "signature block extensions", p.Pos(fn.Pos()), fmt.Sprintf("%d key type tests recognised in sigNames (2 expected)", n))
		}
	}
}
