package main

// Rules added after batch 2 of the third seeding round: R14g, R15g (helpers), R15h, R20g, R20h.

import (
	"fmt"
	"go/token"
	"go/types"
	"sort"
	"strings"

	"golang.org/x/tools/go/ssa"
)

// ------------------------------------------------------------------------------ R14g

// c14NotShareable: values of types that accumulate into their own buffer (a zerolog.Context
// appends every field to one byte slice) belong to one request. A request handler closure that
// captures such a value from an enclosing scope shares it between all requests it serves.
var c14NotShareable = map[string]string{
	"github.com/rs/zerolog.Context": "every Str/Int/... appends to the context's own buffer; two requests extending one captured context write into the same backing array",
}

func handlerCaptures(p *Prog) (out []gFinding) {
	for _, fn := range p.Funcs {
		if fn.Parent() == nil || len(fn.FreeVars) == 0 {
			continue
		}
		// a request handler: func(http.ResponseWriter, *http.Request), or a ctl stand-in named serve
		sig := fn.Signature
		isHandler := sig.Params().Len() == 2 && strings.HasSuffix(sig.Params().At(0).Type().String(), "net/http.ResponseWriter") && strings.HasSuffix(sig.Params().At(1).Type().String(), "net/http.Request")
		if !isHandler {
			continue
		}
		for _, fv := range fn.FreeVars {
			t := fv.Type()
			if pt, ok := t.Underlying().(*types.Pointer); ok {
				t = pt.Elem()
			}
			name := t.String()
			why, bad := c14NotShareable[name]
			if !bad {
				// the control module's stand-in
				if strings.HasSuffix(name, "ctl/sharedctx.Context") {
					why, bad = "control", true
				}
			}
			if !bad {
				continue
			}
			out = append(out, gFinding{Key: fmt.Sprintf("%s captures %s %s", p.FName(fn), name, fv.Name()), Pos: p.Pos(fn.Pos()), OK: false,
				Detail: fmt.Sprintf("the request handler closure captures a %s created outside it (%s): log lines and access-log entries of one request carry the client address and request id of another", name, why)})
		}
	}
	return out
}

// ------------------------------------------------------------------------------ R15g helper

// wrapsItsError: fn returns fmt.Errorf / errors.Join / pkg/errors wrapping of one of its own
// error parameters on some path.
func (p *Prog) wrapsItsError(fn *ssa.Function) bool {
	if fn == nil || len(fn.Blocks) == 0 || !p.InModule(pkgOf(fn)) {
		return false
	}
	ei := errResultIndex(fn.Signature)
	if ei < 0 {
		return false
	}
	for _, r := range returnsOf(fn) {
		for _, lf := range phiLeaves(retVal(r, ei), nil, map[*ssa.Phi]bool{}) {
			call, _ := resultOf(lf.V)
			if call == nil {
				continue
			}
			name := p.calleeName(call.Common())
			if name != "fmt.Errorf" && name != "errors.Join" && !strings.HasSuffix(name, "errors.Wrap") && !strings.HasSuffix(name, "errors.Wrapf") && !strings.HasSuffix(name, "errors.WithMessage") {
				continue
			}
			if dependsOn(lf.V, func(x ssa.Value) bool {
				pa, ok := x.(*ssa.Parameter)
				return ok && isErrorType(pa.Type())
			}) {
				return true
			}
		}
	}
	return false
}

// ------------------------------------------------------------------------------ R15h

// ctxLineage: v is the function's context parameter or derived from it as a child
// (context.WithTimeout/WithDeadline/WithCancel/WithValue whose parent is in the lineage).
func ctxLineage(p *Prog, v ssa.Value, param *ssa.Parameter, depth int) bool {
	if depth > 8 || v == nil {
		return false
	}
	v = stripConv(v)
	if v == ssa.Value(param) {
		return true
	}
	switch x := v.(type) {
	case *ssa.Extract:
		if call, ok := x.Tuple.(*ssa.Call); ok && x.Index == 0 {
			return ctxLineage(p, call, param, depth+1)
		}
	case *ssa.Call:
		switch p.calleeName(x.Common()) {
		case "context.WithTimeout", "context.WithDeadline", "context.WithCancel", "context.WithValue", "context.WithoutCancel":
			if p.calleeName(x.Common()) == "context.WithoutCancel" {
				return false
			}
			return ctxLineage(p, x.Call.Args[0], param, depth+1)
		}
		// a module helper that returns a child of one of its context arguments
		if sc := x.Common().StaticCallee(); sc != nil && len(sc.Blocks) > 0 && p.InModule(pkgOf(sc)) {
			for k, a := range x.Call.Args {
				if !ctxLineage(p, a, param, depth+1) || k >= len(sc.Params) {
					continue
				}
				all := true
				for _, r := range returnsOf(sc) {
					if len(r.Results) == 0 || !ctxLineage(p, r.Results[0], sc.Params[k], depth+1) {
						all = false
					}
				}
				if all {
					return true
				}
			}
		}
	case *ssa.Phi:
		for _, e := range x.Edges {
			if !ctxLineage(p, e, param, depth+1) {
				return false
			}
		}
		return len(x.Edges) > 0
	case *ssa.UnOp:
		if a, ok := x.X.(*ssa.Alloc); ok {
			okAll, n := true, 0
			for _, ref := range *a.Referrers() {
				if st, ok := ref.(*ssa.Store); ok && st.Addr == ssa.Value(a) {
					n++
					if !ctxLineage(p, st.Val, param, depth+1) {
						okAll = false
					}
				}
			}
			return okAll && n > 0
		}
	}
	return false
}

func c15RequestContext(c *Ctx) {
	p := c.P
	c.Rule("R15j", "the worker answers in the body of a 200: what its client decodes (retryable, key usage) is never written under another status", 1)
	for _, f := range workerAnswersInBody(p) {
		c.Check(f.OK, "R15j", f.Key, f.Pos, "", f.Detail)
	}
	c.Rule("R15i", "a token-layer function that is given a context runs no step under a fresh background context, directly or through a context-less helper", 20)
	for _, f := range callerContextHonoured(p) {
		c.Check(f.OK, "R15i", f.Key, f.Pos, "", f.Detail)
	}
	c.Rule("R15h", "the worker client sends each operation under the caller's context or a child of it", 1)
	fn := p.Func("token/worker.(*WorkerToken).request")
	if fn == nil {
		c.Undecided("R15h", "(*WorkerToken).request", "-", "function not found")
		return
	}
	c.Analysed(p.FName(fn))
	var ctxParam *ssa.Parameter
	for _, pa := range fn.Params {
		if strings.HasSuffix(pa.Type().String(), "context.Context") {
			ctxParam = pa
		}
	}
	if ctxParam == nil {
		c.Undecided("R15h", "(*WorkerToken).request context parameter", p.Pos(fn.Pos()), "no context.Context parameter")
		return
	}
	n := 0
	for _, ci := range p.callsIn(fn, "(*net/http.Request).WithContext", "net/http.NewRequestWithContext") {
		n++
		arg := ci.Common().Args[0]
		if p.calleeName(ci.Common()) == "(*net/http.Request).WithContext" {
			arg = ci.Common().Args[1]
		}
		c.Check(ctxLineage(p, arg, ctxParam, 0), "R15h", fmt.Sprintf("%s request context#%d", p.FName(fn), n), p.Pos(ci.Pos()), "the caller's context or a child of it",
			"the request to the worker runs under a context that is not a child of the caller's (only a deadline, or nothing, is carried over): when the caller cancels - the client went away, the server shuts down - the operation keeps retrying for every configured attempt, which doRetry's cancellation checks assume cannot happen")
	}
	if n == 0 {
		c.Undecided("R15h", "(*WorkerToken).request attaches a context", p.Pos(fn.Pos()), "no WithContext / NewRequestWithContext call found")
	}
}

// ------------------------------------------------------------------------------ R20h

// pingForwards: a token wrapper (a struct holding a token.Token) that has its own Ping answers
// with what the wrapped token's Ping answered: no return of nil that does not come from there.
func pingForwards(p *Prog) (out []gFinding) {
	var fns []*ssa.Function
	for _, fn := range p.Funcs {
		if fn.Name() != "Ping" || fn.Signature.Recv() == nil || len(fn.Blocks) == 0 {
			continue
		}
		rt := fn.Signature.Recv().Type()
		if pt, ok := rt.Underlying().(*types.Pointer); ok {
			rt = pt.Elem()
		}
		st, ok := rt.Underlying().(*types.Struct)
		if !ok {
			continue
		}
		wraps := false
		for i := 0; i < st.NumFields(); i++ {
			ft := st.Field(i).Type().String()
			if strings.HasSuffix(ft, "token.Token") || strings.HasSuffix(ft, "ctl/pingwrap.Token") {
				wraps = true
			}
		}
		if wraps {
			fns = append(fns, fn)
		}
	}
	sort.Slice(fns, func(i, j int) bool { return p.FName(fns[i]) < p.FName(fns[j]) })
	for _, fn := range fns {
		ei := errResultIndex(fn.Signature)
		if ei < 0 {
			continue
		}
		bad := ""
		for _, r := range returnsOf(fn) {
			for _, lf := range phiLeaves(retVal(r, ei), nil, map[*ssa.Phi]bool{}) {
				v := stripConv(lf.V)
				if call, _ := resultOf(v); call != nil && call.Common().IsInvoke() && call.Common().Method.Name() == "Ping" {
					continue
				}
				if !p.mayBeNil(v, map[ssa.Value]bool{}) {
					continue
				}
				bad = p.Pos(r.Pos())
			}
		}
		out = append(out, gFinding{Key: p.FName(fn) + " answers with the wrapped token's answer", Pos: p.Pos(fn.Pos()), OK: bad == "",
			Detail: "this wrapper's Ping can return nil without that nil coming from the wrapped token's Ping (return at " + bad + "): the health check then counts a dead token as alive for as long as the wrapper keeps answering"})
	}
	return out
}

// ------------------------------------------------------------------------------ R07g / R14h

// sharedBufferViews: Bytes() of a bytes.Buffer that is a field of a longer-lived object (reached
// from a parameter or a package variable, not a local) handed out as a result. The caller gets a
// view into memory the next call rewrites.
func sharedBufferViews(p *Prog) (out []gFinding) {
	for _, fn := range p.Funcs {
		n := 0
		for _, ci := range p.callsIn(fn, "(*bytes.Buffer).Bytes") {
			recv := ci.Common().Args[0]
			v := recv
			shared := ""
			for i := 0; i < 8; i++ {
				switch x := v.(type) {
				case *ssa.FieldAddr:
					v = x.X
					continue
				case *ssa.UnOp:
					v = x.X
					continue
				case *ssa.Parameter:
					if _, isFA := recv.(*ssa.FieldAddr); isFA {
						shared = "a field of " + x.Name()
					}
				case *ssa.Global:
					shared = "package variable " + x.Name()
				}
				break
			}
			if shared == "" {
				continue
			}
			val := ci.Value()
			if val == nil {
				continue
			}
			escapes := false
			for _, r := range returnsOf(fn) {
				for _, rv := range r.Results {
					if dependsOnNoCall(rv, func(x ssa.Value) bool { return x == ssa.Value(val) }) {
						escapes = true
					}
				}
			}
			if !escapes {
				continue
			}
			n++
			out = append(out, gFinding{Key: fmt.Sprintf("%s returns a view of a shared buffer#%d", p.FName(fn), n), Pos: p.Pos(ci.Pos()), OK: false,
				Detail: "the bytes returned are those of a bytes.Buffer that is " + shared + ": the next call resets and refills that buffer while the previous caller still holds (and may re-read, e.g. from a request's GetBody on a retry) the slice, so one request is sent with another's key name, key id and digest"})
		}
	}
	return out
}

// ------------------------------------------------------------------------------ R12k-m

func c12Round3(c *Ctx) {
	p := c.P
	c.Rule("R12k", "the serialised patch is memory of its own: nothing that went back into a sync.Pool is returned (shared with C14 R14e)", 0)
	for _, f := range poolEscapes(p) {
		c.Check(f.OK, "R12k", f.Key, f.Pos, "", f.Detail)
	}
	for _, f := range poolUseAfterPut(p) {
		c.Check(f.OK, "R12k", f.Key, f.Pos, "", f.Detail)
	}
	c.runControl("R12k pooled memory also returned", "hasher).release", poolEscapes)

	c.Rule("R12l", "the rewrite strategy writes into a temporary file of its own: atomicfile.New creates it with a unique name", 1)
	if fn := p.Func("lib/atomicfile.New"); fn == nil {
		c.Undecided("R12l", "atomicfile.New", "-", "function not found")
	} else {
		c.Analysed(p.FName(fn))
		uniq := len(p.callsIn(fn, "io/ioutil.TempFile", "os.CreateTemp"))
		direct := len(p.callsIn(fn, "os.OpenFile", "os.Create"))
		c.Check(uniq == 1 && direct == 0, "R12l", "atomicfile.New temporary file", p.Pos(fn.Pos()), "one TempFile/CreateTemp", fmt.Sprintf("the temporary file is opened under a predictable name (%d unique-name creations, %d direct opens): when the input, a sibling or a concurrent run already has that name, the rewrite truncates it and then copies from a file it has just emptied, so the result is not the patched original", uniq, direct))
	}

	if nw := p.Func("lib/atomicfile.New"); nw != nil {
		if tmp := p.callsIn(nw, "io/ioutil.TempFile", "os.CreateTemp"); len(tmp) == 1 {
			c.Check(atomicTempInDestDir(p, nw, tmp[0]), "R12l", "atomicfile.New temporary file is created next to the destination", p.Pos(tmp[0].Pos()), "filepath.Dir(dest)",
				"the temporary file of the rewrite strategy is not created in filepath.Dir(dest) (shared with C13 R13a): for a bare file name an empty directory means $TMPDIR, the rename crosses filesystems and fails, while the in-place strategy succeeds on the same file - the two strategies no longer give the same result")
		}
	}
	c.Rule("R12p", "ApplyBinPatch fails only because reading, loading or applying the patch failed", 2)
	for _, f := range applyBinPatchRefusesNothingItself(p) {
		c.Check(f.OK, "R12p", f.Key, f.Pos, "", f.Detail)
	}
	c.Rule("R12n", "a stream read through a bufio.Reader is not also moved with a relative Seek that ignores what is buffered (module-wide)", 0)
	for _, f := range bufferedAndPositioned(p) {
		c.Check(f.OK, "R12n", f.Key, f.Pos, "", f.Detail)
	}
	c.runControl("R12n buffered and positioned control (ctl/bufseek.Skip)", "bufseek.Skip:", bufferedAndPositioned)

	c.Rule("R12m", "ApplyBinPatch reports success only when PatchSet.Apply did", 1)
	if fn := p.Func("signers.ApplyBinPatch"); fn == nil {
		c.Undecided("R12m", "signers.ApplyBinPatch", "-", "function not found")
	} else {
		c.Analysed(p.FName(fn))
		applies := p.callsIn(fn, "(*lib/binpatch.PatchSet).Apply")
		bad := ""
		for _, r := range p.successReturns(fn) {
			// the returned error is Apply's own result, or the return lies behind Apply's nil edge
			ok := false
			for _, lf := range phiLeaves(retVal(r, errResultIndex(fn.Signature)), nil, map[*ssa.Phi]bool{}) {
				if call, _ := resultOf(lf.V); call != nil && p.calleeName(call.Common()) == "(*lib/binpatch.PatchSet).Apply" {
					ok = true
				} else if !isNilConst(lf.V) {
					ok = true
				} else {
					ok = false
					break
				}
			}
			if !ok {
				// a literal nil: must be behind Apply(...) == nil
				guarded := false
				for _, a := range applies {
					if av := a.Value(); av != nil {
						g := Guard{Name: "Apply err==nil", Match: func(f Fact) bool { return f.V == ssa.Value(av) && f.Kind == IsNil }}
						if missing, _ := p.unguardedFromEntry(fn, r, g); len(missing) == 0 {
							guarded = true
						}
					}
				}
				if !guarded {
					bad = p.Pos(r.Pos())
				}
			}
		}
		c.Check(len(applies) > 0 && bad == "", "R12m", "ApplyBinPatch success returns", p.Pos(fn.Pos()), fmt.Sprintf("%d Apply calls", len(applies)),
			"ApplyBinPatch can return nil without PatchSet.Apply having run (return at "+bad+"): the destination is then never written - an output path different from the input keeps its old content or does not exist - while the command reports the file as signed")
	}
}

// ------------------------------------------------------------------------------ R18h, R18i, R19h, R19i

func c18Round3(c *Ctx) {
	p := c.P
	c.Rule("R18h", "a sector obtained from the allocator is entered into the allocation table on every path to a success return", 1)
	nAlloc := 0
	for _, fn := range p.pkgFuncs("lib/comdoc") {
		nFn := 0
		for _, ci := range p.callsIn(fn, "(*lib/comdoc.ComDoc).makeFreeSectors") {
			list := ci.Value()
			if list == nil {
				continue
			}
			// single sectors taken out of the result: list[0]
			for _, ref := range *list.Referrers() {
				ia, ok := ref.(*ssa.IndexAddr)
				if !ok {
					continue
				}
				if _, isK := constInt(ia.Index); !isK {
					continue
				}
				for _, r2 := range *ia.Referrers() {
					ld, ok := r2.(*ssa.UnOp)
					if !ok {
						continue
					}
					nAlloc++
					nFn++
					key := fmt.Sprintf("%s sector#%d from the allocator is entered into its table", p.FName(fn), nFn)
					c.Analysed(p.FName(fn))
					short := false
					if bv, isB := boolConst(ci.Common().Args[len(ci.Common().Args)-1]); isB {
						short = bv
					}
					table := "f:lib/comdoc.ComDoc.SAT"
					if short {
						table = "f:lib/comdoc.ComDoc.SSAT"
					}
					del := map[edge]bool{}
					sameBlock := false
					for _, b := range fn.Blocks {
						for _, in := range b.Instrs {
							st, ok := in.(*ssa.Store)
							if !ok {
								continue
							}
							ia2, ok := st.Addr.(*ssa.IndexAddr)
							if !ok || p.memKey(ia2) != table {
								continue
							}
							if !dependsOn(ia2.Index, func(x ssa.Value) bool { return x == ssa.Value(ld) }) {
								continue
							}
							if b == ld.Block() && instrIndex(st) > instrIndex(ld) {
								sameBlock = true
							}
							for si := range b.Succs {
								del[edge{b.Index, si}] = true
							}
						}
					}
					bad := ""
					var path []string
					if !sameBlock {
						pred := map[int]int{}
						seen := reachAfter(fn, ld, del, pred)
						for _, r := range p.successReturns(fn) {
							if seen[r.Block().Index] {
								bad = p.Pos(r.Pos())
								path = p.witness(fn, pred, r.Block().Index)
							}
						}
					}
					c.Check(bad == "", "R18h", key, p.Pos(ld.Pos()), "table entry stored on every path", "a sector taken from the free list reaches the return at "+bad+" without an entry having been stored for it in the allocation table: it is still marked free, the next allocation hands it out again, and two chains then share a sector", path...)
				}
			}
		}
	}
	if nAlloc == 0 {
		c.Undecided("R18h", "single-sector allocations", "-", "no makeFreeSectors(...)[k] found in lib/comdoc (writeShortSector had one)")
	}

	c.Rule("R18m", "master-table sectors are counted at one entry less per sector than sector-table sectors", 1)
	for _, f := range msatSectorHoldsOneLess(p) {
		c.Check(f.OK, "R18m", f.Key, f.Pos, "", f.Detail)
	}
	c.Rule("R18k", "ComDoc.Close sets the file length to the end of the last used sector on every path that found one (cut and pad), and never makes that depend on the file's present size", 2)
	for _, f := range closePadsLastSector(p) {
		c.Check(f.OK, "R18k", f.Key, f.Pos, "", f.Detail)
	}
	c.Rule("R18l", "both walks over an MSI storage hand on the storage's UID on every successful path", 2)
	for _, f := range walkersEmitStorageID(p) {
		c.Check(f.OK, "R18l", f.Key, f.Pos, "", f.Detail)
	}
	c.Rule("R18i", "the metadata member of the MSI tarball is digested on its own or skipped, never copied into the stream digest", 1)
	if fn := p.Func("lib/authenticode.DigestMsiTar"); fn == nil {
		c.Undecided("R18i", "authenticode.DigestMsiTar", "-", "function not found")
	} else {
		c.Analysed(p.FName(fn))
		// the test for the metadata member
		var tests []*ssa.BasicBlock
		for _, b := range fn.Blocks {
			ifi, ok := b.Instrs[len(b.Instrs)-1].(*ssa.If)
			if !ok {
				continue
			}
			bo, ok := ifi.Cond.(*ssa.BinOp)
			if !ok || bo.Op != token.EQL {
				continue
			}
			for _, side := range []ssa.Value{bo.X, bo.Y} {
				if s, ok := constString(side); ok && s == "__exmeta" {
					tests = append(tests, b)
				}
			}
		}
		copies := p.callsIn(fn, "io.Copy")
		if len(tests) == 0 || len(copies) == 0 {
			c.Undecided("R18i", "DigestMsiTar metadata member", p.Pos(fn.Pos()), fmt.Sprintf("%d tests for the __exmeta member, %d io.Copy calls", len(tests), len(copies)))
		}
		for i, tb := range tests {
			// within the iteration: stop at the next tr.Next()
			del := map[edge]bool{}
			for _, b := range fn.Blocks {
				stop := false
				for _, in := range b.Instrs {
					if ci, ok := in.(ssa.CallInstruction); ok {
						switch p.calleeName(ci.Common()) {
						case "(*archive/tar.Reader).Next", "io/ioutil.ReadAll", "io.ReadAll":
							stop = true
						}
					}
				}
				if stop {
					for _, pb := range b.Preds {
						for si, s := range pb.Succs {
							if s == b {
								del[edge{pb.Index, si}] = true
							}
						}
					}
				}
			}
			// the member stays the metadata block for the rest of the iteration: a second test of
			// the same name (the condition kept in a named boolean and asked twice) goes the same way
			for _, tb2 := range tests {
				del[edge{tb2.Index, 1}] = true
			}
			bad := false
			readsFirst := false
			for _, in := range tb.Succs[0].Instrs {
				if ci, ok := in.(ssa.CallInstruction); ok {
					switch p.calleeName(ci.Common()) {
					case "io/ioutil.ReadAll", "io.ReadAll":
						readsFirst = true
					}
				}
			}
			if !readsFirst {
				seen := reach(fn, []*ssa.BasicBlock{tb.Succs[0]}, del, nil)
				for _, cp := range copies {
					if seen[cp.Block().Index] {
						bad = true
					}
				}
			}
			c.Check(!bad, "R18i", fmt.Sprintf("DigestMsiTar metadata member test#%d", i+1), p.Pos(lastPos(tb)), "read whole or skipped", "when the member is the metadata block the stream copy into the digest can still be reached without the member having been read on its own: with extended signatures off the metadata is hashed as if it were a stream, the tar digest differs from DigestMSI and the signed file fails verification")
		}
	}
}

func c19Round3(c *Ctx) {
	c.Rule("R19l", "the hexadecimal identity strings of lib/appmanifest (publicKeyToken, issuerKeyHash) have a fixed width: none is made by a variable-width integer formatter", 0)
	for _, f := range hexIdentitiesFixedWidth(c.P) {
		c.Check(f.OK, "R19l", f.Key, f.Pos, "", f.Detail)
	}
	c.runControl("R19l variable-width token control (ctl/hexid.Token)", "hexid.Token", hexIdentitiesFixedWidth)
	c.Rule("R19k", "the strong-name blob states the key size as eight times the modulus bytes it carries", 1)
	for _, f := range snkBitLengthFromModulusBytes(c.P) {
		c.Check(f.OK, "R19k", f.Key, f.Pos, "", f.Detail)
	}
	p := c.P
	c.Rule("R19h", "the canonical form handed to the digest is memory of its own, not a pooled buffer (shared with C14 R14e)", 0)
	for _, f := range poolEscapes(p) {
		c.Check(f.OK, "R19h", f.Key, f.Pos, "", f.Detail)
	}
	for _, f := range poolUseAfterPut(p) {
		c.Check(f.OK, "R19h", f.Key, f.Pos, "", f.Detail)
	}
	c.runControl("R19h pooled memory also returned", "hasher).release", poolEscapes)

	c.Rule("R19j", "the OPC signature declares namespaces only as default namespaces on the elements that use them", 3)
	for _, f := range opcNamespaceDecls(p) {
		c.Check(f.OK, "R19j", f.Key, f.Pos, "default namespace on the element itself", f.Detail)
	}
	c.Rule("R19i", "issuerKeyHash is computed from the issuer's public key, not copied from a certificate extension", 1)
	fn := p.Func("lib/appmanifest.PublisherIdentity")
	if fn == nil {
		c.Undecided("R19i", "appmanifest.PublisherIdentity", "-", "function not found")
		return
	}
	c.Analysed(p.FName(fn))
	n := 0
	for _, r := range p.successReturns(fn) {
		if len(r.Results) < 2 {
			continue
		}
		n++
		v := r.Results[1]
		computed := dependsOn(v, func(x ssa.Value) bool {
			call, ok := x.(*ssa.Call)
			return ok && p.calleeName(call.Common()) == "lib/x509tools.SubjectKeyID"
		})
		copied := dependsOn(v, func(x ssa.Value) bool {
			tn, f, _ := p.fieldLoad(x)
			return strings.HasSuffix(tn, "crypto/x509.Certificate") && (f == "SubjectKeyId" || f == "AuthorityKeyId")
		})
		c.Check(computed && !copied, "R19i", fmt.Sprintf("PublisherIdentity issuerKeyHash#%d", n), p.Pos(r.Pos()), "SubjectKeyID(issuer.PublicKey)",
			"the issuerKeyHash written into the manifest is (also) taken from the key identifier extension of a certificate: ClickOnce defines it as the SHA-1 of the issuer's public key, which an extension need not be (RFC 7093 identifiers, private schemes), so the publisher identity does not match the certificate chain although relic's own verifier, which does not look at it, accepts the manifest")
	}
	if n == 0 {
		c.Undecided("R19i", "PublisherIdentity success returns", p.Pos(fn.Pos()), "none found")
	}
}

// ------------------------------------------------------------------------------ R05n / R01j, R01i, R03i

// pgpLengthThresholds: RFC 4880 4.2.2 - a new-format body length below 192 takes one octet,
// below 8384 two octets (first octet 192..223), anything else five octets (255 + 4). First octets
// 224..254 announce partial body lengths, so a two-octet form for a larger value is misread.
func pgpLengthThresholds(p *Prog) (out []gFinding) {
	fn := p.Func("lib/pgptools.serializeHeader")
	if fn == nil {
		return []gFinding{{Key: "pgptools.serializeHeader", Pos: "-", OK: false, Detail: "function not found"}}
	}
	var lenParam *ssa.Parameter
	for _, pa := range fn.Params {
		if pa.Name() == "length" || (lenParam == nil && intWidth(pa.Type()) > 0) {
			if intWidth(pa.Type()) > 0 {
				lenParam = pa
			}
		}
	}
	// the last integer parameter is the length
	for _, pa := range fn.Params {
		if intWidth(pa.Type()) > 0 {
			lenParam = pa
		}
	}
	if lenParam == nil {
		return []gFinding{{Key: "pgptools.serializeHeader length parameter", Pos: p.Pos(fn.Pos()), OK: false, Detail: "no integer parameter"}}
	}
	bounds := map[int64]string{}
	for _, b := range fn.Blocks {
		for _, in := range b.Instrs {
			bo, ok := in.(*ssa.BinOp)
			if !ok {
				continue
			}
			k, isK := constInt(bo.Y)
			if !isK || stripConv(bo.X) != ssa.Value(lenParam) {
				continue
			}
			switch bo.Op {
			case token.LSS:
				bounds[k] = p.Pos(bo.Pos())
			case token.LEQ:
				bounds[k+1] = p.Pos(bo.Pos())
			case token.GEQ:
				bounds[k] = p.Pos(bo.Pos())
			case token.GTR:
				bounds[k+1] = p.Pos(bo.Pos())
			}
		}
	}
	want := map[int64]string{192: "one octet below 192", 8384: "two octets below 8384"}
	for k, what := range want {
		_, ok := bounds[k]
		out = append(out, gFinding{Key: "serializeHeader: " + what, Pos: p.Pos(fn.Pos()), OK: ok,
			Detail: fmt.Sprintf("the packet length is not compared with %d (%s); thresholds found: %v. RFC 4880 4.2.2 reserves first octets 224..254 for partial body lengths, so a length encoded in the two-octet form beyond 8383 is read as a partial body by every OpenPGP parser", k, what, sortedKeysInt(bounds))})
	}
	for k, pos := range bounds {
		if _, ok := want[k]; !ok {
			out = append(out, gFinding{Key: fmt.Sprintf("serializeHeader: threshold %d", k), Pos: pos, OK: false, Detail: fmt.Sprintf("the packet length is compared with %d, which is not a boundary of the RFC 4880 length encoding (192, 8384)", k)})
		}
	}
	return out
}

func sortedKeysInt(m map[int64]string) []int64 {
	var ks []int64
	for k := range m {
		ks = append(ks, k)
	}
	sort.Slice(ks, func(i, j int) bool { return ks[i] < ks[j] })
	return ks
}

// xarOffsetsRelocated: the loop that rewrites heap offsets in the TOC visits every data entry: an
// iteration may leave the offset alone only because that very offset does not parse or is absent.
func xarOffsetsRelocated(p *Prog) (out []gFinding) {
	n := 0
	for _, fn := range p.pkgFuncs("lib/fruit/xar") {
		for _, ci := range p.callsIn(fn, "(*github.com/beevik/etree.Element).SetText") {
			call, ok := ci.(*ssa.Call)
			if !ok {
				continue
			}
			// the new text is computed from an offset plus a shift
			shifted := dependsOn(call.Call.Args[1], func(x ssa.Value) bool {
				bo, ok := x.(*ssa.BinOp)
				return ok && bo.Op == token.ADD
			}) && dependsOn(call.Call.Args[1], func(x ssa.Value) bool {
				c2, ok := x.(*ssa.Call)
				return ok && p.calleeName(c2.Common()) == "strconv.ParseInt"
			})
			if !shifted {
				continue
			}
			L, H := loopAround(fn, call.Block())
			if H == nil {
				continue
			}
			n++
			key := fmt.Sprintf("%s relocates every data offset#%d", p.FName(fn), n)
			// allowed ways round the SetText: tests of the parse error, of the offset element, of the shift
			recv := call.Call.Args[0]
			del := map[edge]bool{}
			for bi := range L {
				b := fn.Blocks[bi]
				ifi, ok := b.Instrs[len(b.Instrs)-1].(*ssa.If)
				if !ok {
					continue
				}
				allowed := dependsOn(ifi.Cond, func(x ssa.Value) bool {
					if x == recv {
						return true
					}
					if ex, ok := x.(*ssa.Extract); ok && isErrorType(ex.Type()) {
						if c2, ok := ex.Tuple.(*ssa.Call); ok && p.calleeName(c2.Common()) == "strconv.ParseInt" {
							return true
						}
					}
					if pa, ok := x.(*ssa.Parameter); ok && intWidth(pa.Type()) > 0 {
						return true
					}
					return false
				})
				if allowed {
					for si := range b.Succs {
						del[edge{bi, si}] = true
					}
				}
			}
			// can the header be reached again from the header without passing the SetText block?
			for _, pb := range call.Block().Preds {
				for si, s := range pb.Succs {
					if s == call.Block() {
						del[edge{pb.Index, si}] = true
					}
				}
			}
			for bi := range L {
				for si, s := range fn.Blocks[bi].Succs {
					if !L[s.Index] {
						del[edge{bi, si}] = true
					}
				}
			}
			var starts []*ssa.BasicBlock
			for si, s := range H.Succs {
				if !del[edge{H.Index, si}] && L[s.Index] {
					starts = append(starts, s)
				}
			}
			seen := reach(fn, starts, del, nil)
			out = append(out, gFinding{Key: key, Pos: p.Pos(call.Pos()), OK: !seen[H.Index],
				Detail: "an iteration over the data entries of the table of contents can go round without shifting that entry's heap offset for a reason other than the offset itself being absent or unparsable: the bytes of such a member move with the new signature but its recorded offset does not, so an independent reader extracts signature bytes for it"})
		}
	}
	if n == 0 {
		out = append(out, gFinding{Key: "xar offset relocation loop", Pos: "-", OK: false, Detail: "no loop rewriting offsets (SetText of a parsed offset plus a shift) found in lib/fruit/xar"})
	}
	return out
}
