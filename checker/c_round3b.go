package main

// Rules added after batch 2 of the third seeding round: R14g, R15g (helpers), R15h, R20g, R20h.

import (
	"fmt"
	"go/types"
	"sort"
	"strings"

	"golang.org/x/tools/go/ssa"
)

// ------------------------------------------------------------------------------ R14g

// c14NotShareable: values of types that accumulate into their own buffer (a zerolog.Context
// appends every field to one byte slice) belong to one request. A request handler closure that
// captures such a value from an enclosing scope shares it between all requests it serves.
var c14NotShareable = map[string]string{
	"github.com/rs/zerolog.Context": "every Str/Int/... appends to the context's own buffer; two requests extending one captured context write into the same backing array",
}

func handlerCaptures(p *Prog) (out []gFinding) {
	for _, fn := range p.Funcs {
		if fn.Parent() == nil || len(fn.FreeVars) == 0 {
			continue
		}
		// a request handler: func(http.ResponseWriter, *http.Request), or a ctl stand-in named serve
		sig := fn.Signature
		isHandler := sig.Params().Len() == 2 && strings.HasSuffix(sig.Params().At(0).Type().String(), "net/http.ResponseWriter") && strings.HasSuffix(sig.Params().At(1).Type().String(), "net/http.Request")
		if !isHandler {
			continue
		}
		for _, fv := range fn.FreeVars {
			t := fv.Type()
			if pt, ok := t.Underlying().(*types.Pointer); ok {
				t = pt.Elem()
			}
			name := t.String()
			why, bad := c14NotShareable[name]
			if !bad {
				// the control module's stand-in
				if strings.HasSuffix(name, "ctl/sharedctx.Context") {
					why, bad = "control", true
				}
			}
			if !bad {
				continue
			}
			out = append(out, gFinding{Key: fmt.Sprintf("%s captures %s %s", p.FName(fn), name, fv.Name()), Pos: p.Pos(fn.Pos()), OK: false,
				Detail: fmt.Sprintf("the request handler closure captures a %s created outside it (%s): log lines and access-log entries of one request carry the client address and request id of another", name, why)})
		}
	}
	return out
}

// ------------------------------------------------------------------------------ R15g helper

// wrapsItsError: fn returns fmt.Errorf / errors.Join / pkg/errors wrapping of one of its own
// error parameters on some path.
func (p *Prog) wrapsItsError(fn *ssa.Function) bool {
	if fn == nil || len(fn.Blocks) == 0 || !p.InModule(pkgOf(fn)) {
		return false
	}
	ei := errResultIndex(fn.Signature)
	if ei < 0 {
		return false
	}
	for _, r := range returnsOf(fn) {
		for _, lf := range phiLeaves(retVal(r, ei), nil, map[*ssa.Phi]bool{}) {
			call, _ := resultOf(lf.V)
			if call == nil {
				continue
			}
			name := p.calleeName(call.Common())
			if name != "fmt.Errorf" && name != "errors.Join" && !strings.HasSuffix(name, "errors.Wrap") && !strings.HasSuffix(name, "errors.Wrapf") && !strings.HasSuffix(name, "errors.WithMessage") {
				continue
			}
			if dependsOn(lf.V, func(x ssa.Value) bool {
				pa, ok := x.(*ssa.Parameter)
				return ok && isErrorType(pa.Type())
			}) {
				return true
			}
		}
	}
	return false
}

// ------------------------------------------------------------------------------ R15h

// ctxLineage: v is the function's context parameter or derived from it as a child
// (context.WithTimeout/WithDeadline/WithCancel/WithValue whose parent is in the lineage).
func ctxLineage(p *Prog, v ssa.Value, param *ssa.Parameter, depth int) bool {
	if depth > 8 || v == nil {
		return false
	}
	v = stripConv(v)
	if v == ssa.Value(param) {
		return true
	}
	switch x := v.(type) {
	case *ssa.Extract:
		if call, ok := x.Tuple.(*ssa.Call); ok && x.Index == 0 {
			return ctxLineage(p, call, param, depth+1)
		}
	case *ssa.Call:
		switch p.calleeName(x.Common()) {
		case "context.WithTimeout", "context.WithDeadline", "context.WithCancel", "context.WithValue", "context.WithoutCancel":
			if p.calleeName(x.Common()) == "context.WithoutCancel" {
				return false
			}
			return ctxLineage(p, x.Call.Args[0], param, depth+1)
		}
		// a module helper that returns a child of one of its context arguments
		if sc := x.Common().StaticCallee(); sc != nil && len(sc.Blocks) > 0 && p.InModule(pkgOf(sc)) {
			for k, a := range x.Call.Args {
				if !ctxLineage(p, a, param, depth+1) || k >= len(sc.Params) {
					continue
				}
				all := true
				for _, r := range returnsOf(sc) {
					if len(r.Results) == 0 || !ctxLineage(p, r.Results[0], sc.Params[k], depth+1) {
						all = false
					}
				}
				if all {
					return true
				}
			}
		}
	case *ssa.Phi:
		for _, e := range x.Edges {
			if !ctxLineage(p, e, param, depth+1) {
				return false
			}
		}
		return len(x.Edges) > 0
	case *ssa.UnOp:
		if a, ok := x.X.(*ssa.Alloc); ok {
			okAll, n := true, 0
			for _, ref := range *a.Referrers() {
				if st, ok := ref.(*ssa.Store); ok && st.Addr == ssa.Value(a) {
					n++
					if !ctxLineage(p, st.Val, param, depth+1) {
						okAll = false
					}
				}
			}
			return okAll && n > 0
		}
	}
	return false
}

func c15RequestContext(c *Ctx) {
	p := c.P
	c.Rule("R15h", "the worker client sends each operation under the caller's context or a child of it", 1)
	fn := p.Func("token/worker.(*WorkerToken).request")
	if fn == nil {
		c.Undecided("R15h", "(*WorkerToken).request", "-", "function not found")
		return
	}
	c.Analysed(p.FName(fn))
	var ctxParam *ssa.Parameter
	for _, pa := range fn.Params {
		if strings.HasSuffix(pa.Type().String(), "context.Context") {
			ctxParam = pa
		}
	}
	if ctxParam == nil {
		c.Undecided("R15h", "(*WorkerToken).request context parameter", p.Pos(fn.Pos()), "no context.Context parameter")
		return
	}
	n := 0
	for _, ci := range p.callsIn(fn, "(*net/http.Request).WithContext", "net/http.NewRequestWithContext") {
		n++
		arg := ci.Common().Args[0]
		if p.calleeName(ci.Common()) == "(*net/http.Request).WithContext" {
			arg = ci.Common().Args[1]
		}
		c.Check(ctxLineage(p, arg, ctxParam, 0), "R15h", fmt.Sprintf("%s request context#%d", p.FName(fn), n), p.Pos(ci.Pos()), "the caller's context or a child of it",
			"the request to the worker runs under a context that is not a child of the caller's (only a deadline, or nothing, is carried over): when the caller cancels - the client went away, the server shuts down - the operation keeps retrying for every configured attempt, which doRetry's cancellation checks assume cannot happen")
	}
	if n == 0 {
		c.Undecided("R15h", "(*WorkerToken).request attaches a context", p.Pos(fn.Pos()), "no WithContext / NewRequestWithContext call found")
	}
}

// ------------------------------------------------------------------------------ R20h

// pingForwards: a token wrapper (a struct holding a token.Token) that has its own Ping answers
// with what the wrapped token's Ping answered: no return of nil that does not come from there.
func pingForwards(p *Prog) (out []gFinding) {
	var fns []*ssa.Function
	for _, fn := range p.Funcs {
		if fn.Name() != "Ping" || fn.Signature.Recv() == nil || len(fn.Blocks) == 0 {
			continue
		}
		rt := fn.Signature.Recv().Type()
		if pt, ok := rt.Underlying().(*types.Pointer); ok {
			rt = pt.Elem()
		}
		st, ok := rt.Underlying().(*types.Struct)
		if !ok {
			continue
		}
		wraps := false
		for i := 0; i < st.NumFields(); i++ {
			ft := st.Field(i).Type().String()
			if strings.HasSuffix(ft, "token.Token") || strings.HasSuffix(ft, "ctl/pingwrap.Token") {
				wraps = true
			}
		}
		if wraps {
			fns = append(fns, fn)
		}
	}
	sort.Slice(fns, func(i, j int) bool { return p.FName(fns[i]) < p.FName(fns[j]) })
	for _, fn := range fns {
		ei := errResultIndex(fn.Signature)
		if ei < 0 {
			continue
		}
		bad := ""
		for _, r := range returnsOf(fn) {
			for _, lf := range phiLeaves(retVal(r, ei), nil, map[*ssa.Phi]bool{}) {
				v := stripConv(lf.V)
				if call, _ := resultOf(v); call != nil && call.Common().IsInvoke() && call.Common().Method.Name() == "Ping" {
					continue
				}
				if !p.mayBeNil(v, map[ssa.Value]bool{}) {
					continue
				}
				bad = p.Pos(r.Pos())
			}
		}
		out = append(out, gFinding{Key: p.FName(fn) + " answers with the wrapped token's answer", Pos: p.Pos(fn.Pos()), OK: bad == "",
			Detail: "this wrapper's Ping can return nil without that nil coming from the wrapped token's Ping (return at " + bad + "): the health check then counts a dead token as alive for as long as the wrapper keeps answering"})
	}
	return out
}

// ------------------------------------------------------------------------------ R07g / R14h

// sharedBufferViews: Bytes() of a bytes.Buffer that is a field of a longer-lived object (reached
// from a parameter or a package variable, not a local) handed out as a result. The caller gets a
// view into memory the next call rewrites.
func sharedBufferViews(p *Prog) (out []gFinding) {
	for _, fn := range p.Funcs {
		n := 0
		for _, ci := range p.callsIn(fn, "(*bytes.Buffer).Bytes") {
			recv := ci.Common().Args[0]
			v := recv
			shared := ""
			for i := 0; i < 8; i++ {
				switch x := v.(type) {
				case *ssa.FieldAddr:
					v = x.X
					continue
				case *ssa.UnOp:
					v = x.X
					continue
				case *ssa.Parameter:
					if _, isFA := recv.(*ssa.FieldAddr); isFA {
						shared = "a field of " + x.Name()
					}
				case *ssa.Global:
					shared = "package variable " + x.Name()
				}
				break
			}
			if shared == "" {
				continue
			}
			val := ci.Value()
			if val == nil {
				continue
			}
			escapes := false
			for _, r := range returnsOf(fn) {
				for _, rv := range r.Results {
					if dependsOnNoCall(rv, func(x ssa.Value) bool { return x == ssa.Value(val) }) {
						escapes = true
					}
				}
			}
			if !escapes {
				continue
			}
			n++
			out = append(out, gFinding{Key: fmt.Sprintf("%s returns a view of a shared buffer#%d", p.FName(fn), n), Pos: p.Pos(ci.Pos()), OK: false,
				Detail: "the bytes returned are those of a bytes.Buffer that is " + shared + ": the next call resets and refills that buffer while the previous caller still holds (and may re-read, e.g. from a request's GetBody on a retry) the slice, so one request is sent with another's key name, key id and digest"})
		}
	}
	return out
}

// ------------------------------------------------------------------------------ R12k-m

func c12Round3(c *Ctx) {
	p := c.P
	c.Rule("R12k", "the serialised patch is memory of its own: nothing that went back into a sync.Pool is returned (shared with C14 R14e)", 0)
	for _, f := range poolEscapes(p) {
		c.Check(f.OK, "R12k", f.Key, f.Pos, "", f.Detail)
	}
	for _, f := range poolUseAfterPut(p) {
		c.Check(f.OK, "R12k", f.Key, f.Pos, "", f.Detail)
	}
	c.runControl("R12k pooled memory also returned", "hasher).release", poolEscapes)

	c.Rule("R12l", "the rewrite strategy writes into a temporary file of its own: atomicfile.New creates it with a unique name", 1)
	if fn := p.Func("lib/atomicfile.New"); fn == nil {
		c.Undecided("R12l", "atomicfile.New", "-", "function not found")
	} else {
		c.Analysed(p.FName(fn))
		uniq := len(p.callsIn(fn, "io/ioutil.TempFile", "os.CreateTemp"))
		direct := len(p.callsIn(fn, "os.OpenFile", "os.Create"))
		c.Check(uniq == 1 && direct == 0, "R12l", "atomicfile.New temporary file", p.Pos(fn.Pos()), "one TempFile/CreateTemp", fmt.Sprintf("the temporary file is opened under a predictable name (%d unique-name creations, %d direct opens): when the input, a sibling or a concurrent run already has that name, the rewrite truncates it and then copies from a file it has just emptied, so the result is not the patched original", uniq, direct))
	}

	c.Rule("R12m", "ApplyBinPatch reports success only when PatchSet.Apply did", 1)
	if fn := p.Func("signers.ApplyBinPatch"); fn == nil {
		c.Undecided("R12m", "signers.ApplyBinPatch", "-", "function not found")
	} else {
		c.Analysed(p.FName(fn))
		applies := p.callsIn(fn, "(*lib/binpatch.PatchSet).Apply")
		bad := ""
		for _, r := range p.successReturns(fn) {
			// the returned error is Apply's own result, or the return lies behind Apply's nil edge
			ok := false
			for _, lf := range phiLeaves(retVal(r, errResultIndex(fn.Signature)), nil, map[*ssa.Phi]bool{}) {
				if call, _ := resultOf(lf.V); call != nil && p.calleeName(call.Common()) == "(*lib/binpatch.PatchSet).Apply" {
					ok = true
				} else if !isNilConst(lf.V) {
					ok = true
				} else {
					ok = false
					break
				}
			}
			if !ok {
				// a literal nil: must be behind Apply(...) == nil
				guarded := false
				for _, a := range applies {
					if av := a.Value(); av != nil {
						g := Guard{Name: "Apply err==nil", Match: func(f Fact) bool { return f.V == ssa.Value(av) && f.Kind == IsNil }}
						if missing, _ := p.unguardedFromEntry(fn, r, g); len(missing) == 0 {
							guarded = true
						}
					}
				}
				if !guarded {
					bad = p.Pos(r.Pos())
				}
			}
		}
		c.Check(len(applies) > 0 && bad == "", "R12m", "ApplyBinPatch success returns", p.Pos(fn.Pos()), fmt.Sprintf("%d Apply calls", len(applies)),
			"ApplyBinPatch can return nil without PatchSet.Apply having run (return at "+bad+"): the destination is then never written - an output path different from the input keeps its old content or does not exist - while the command reports the file as signed")
	}
}
