package main

// C15 — token failures are retried only when safe and reported faithfully.

import (
	"fmt"
	"go/token"
	"go/types"
	"strings"

	"golang.org/x/tools/go/ssa"
)

func init() {
	register(&propDef{
		ID: "C15",
		Meta: propMeta{
			Explanation: "Decides the shape of the worker retry protocol on every path: (R15a) the single attempt call in doRetry sits in a loop every iteration of which passes a `counter < bound` test on an induction variable (+const per iteration, bound from the configured retries or the default), and a failed attempt can reach the next attempt only through the true side of httperror.Temporary applied to that attempt's own error; every other failure returns that same error value unwrapped; (R15b) every return of doRetry whose error may be nil is guarded by a successful attempt, including the post-loop return, for which the zero-iteration path must be impossible (bound proved > initial counter on every incoming path); (R15c) after the backoff wait the caller's context is re-checked before the next attempt, and the per-attempt context derives from the request's context; (R15d) the worker handler dispatches (and touches the token) only after hmac.Equal on the per-process cookie returned true, and the refusal path answers 403; (R15e) every field of the RPC request/response structs is written by the producing side and read by the consuming side, Usage maps to KeyUsageError and Retryable to Temporary(); (R15f) the key cache returns a cached key only if no key id is pinned or the ids are bytes.Equal, never stores a key fetched under a pinned id, and is accessed under its mutex; the handler installs the pinned id in the context. (R15g) the token wrappers between the RPC handler and the real token (key cache, rate limiter) return the inner token's errors unwrapped: the handler classifies errors by exact type, so a wrapped error loses its retryable / key-usage classification. R15g also follows module helpers that wrap an error parameter. (R15h) the context (*WorkerToken).request attaches to the HTTP request is its caller's context or a child of it (context.WithTimeout/WithDeadline/WithCancel/WithValue, or a module helper returning such a child), never a context rooted elsewhere that only copies the deadline. (R15j) the worker's client decodes the JSON answer only under StatusCode == 200 (premise checked), and the worker's handler writes the marshalled workerrpc.Response with no preceding WriteHeader of another value: retryability and key-usage classification reach the client. (R15i) no function of the token packages that has a context parameter hands context.Background()/TODO() (or a child of one) to a call, directly or inside a module helper that takes no context (depth 2; goroutines excepted): a cancelled or timed-out caller is not kept queueing and the backend is not driven on its behalf.",
			NotDecided:  "timing of backoff, what HSMs return, HTTP transport behaviour, and the dynamic count of attempts (only that each iteration passes the bound test).",
			Assumptions: []string{"httperror.Temporary classifies by the dynamic type of the error value, so wrapping loses the classification"},
		},
		Run: runC15,
	})
}

// cmpImplies: does the fact f (a comparison of v against a constant) imply v > c0?
func cmpImpliesGreater(f Fact, v ssa.Value, c0 int64) bool {
	bo, ok := f.V.(*ssa.BinOp)
	if !ok {
		return false
	}
	truth := f.Kind == IsTrue
	if f.Kind != IsTrue && f.Kind != IsFalse {
		return false
	}
	var k int64
	op := bo.Op
	switch {
	case bo.X == v:
		kk, ok := constInt(bo.Y)
		if !ok {
			return false
		}
		k = kk
	case bo.Y == v:
		kk, ok := constInt(bo.X)
		if !ok {
			return false
		}
		k = kk
		// mirror: k op v  ==  v op' k
		switch op {
		case token.LSS:
			op = token.GTR
		case token.LEQ:
			op = token.GEQ
		case token.GTR:
			op = token.LSS
		case token.GEQ:
			op = token.LEQ
		}
	default:
		return false
	}
	if !truth {
		switch op {
		case token.LSS:
			op = token.GEQ
		case token.LEQ:
			op = token.GTR
		case token.GTR:
			op = token.LEQ
		case token.GEQ:
			op = token.LSS
		case token.EQL:
			op = token.NEQ
		case token.NEQ:
			op = token.EQL
		}
	}
	switch op {
	case token.GTR:
		return k >= c0
	case token.GEQ:
		return k > c0
	case token.EQL:
		return k > c0
	}
	return false
}

// provedGreater: on every path into the program point where `bound` is used, is
// bound > c0?  bound's phi leaves must be constants > c0 or values whose defining edge
// is dominated by a comparison implying it.
func (p *Prog) provedGreater(fn *ssa.Function, bound ssa.Value, c0 int64) (bool, string) {
	for _, lf := range phiLeaves(bound, nil, map[*ssa.Phi]bool{}) {
		if k, ok := constInt(lf.V); ok {
			if k > c0 {
				continue
			}
			return false, fmt.Sprintf("constant bound %d is not > %d", k, c0)
		}
		if lf.From == nil {
			return false, "bound is not a merge of checked values: " + short(lf.V.String(), 40)
		}
		v := lf.V
		g := Guard{Match: func(f Fact) bool { return cmpImpliesGreater(f, v, c0) }}
		if leafUnguarded(fn, lf, g) {
			return false, fmt.Sprintf("value %s reaches the loop bound without a test implying it is > %d (a zero or negative configured value yields a loop that never runs)", short(p.describeValue(v), 50), c0)
		}
	}
	return true, ""
}

func (p *Prog) describeValue(v ssa.Value) string {
	if t, f, _ := p.fieldLoad(v); t != "" {
		return t + "." + f
	}
	return v.Name() + " = " + v.String()
}

func inCycleWith(fn *ssa.Function, b *ssa.BasicBlock, deleted map[edge]bool) bool {
	return reach(fn, succsFrom(b, deleted), deleted, nil)[b.Index]
}

func runC15(c *Ctx) {
	p := c.P
	const (
		ra = "R15a"
		rb = "R15b"
		rc = "R15c"
		rd = "R15d"
		re = "R15e"
		rf = "R15f"
	)
	c.Rule(ra, "one attempt call inside a counter-bounded loop; retry only through Temporary(err)==true of that attempt's error; other failures return the same error value", 4)
	c.Rule(rb, "doRetry returns a nil error only after a successful attempt (zero-iteration loop impossible)", 2)
	c.Rule(rc, "caller cancellation is checked after the backoff wait and before the next attempt; per-attempt context derives from the request context", 3)
	c.Rule(rd, "worker handler dispatches only after hmac.Equal(cookie)==true; refusal answers 403", 2)
	c.Rule(re, "every workerrpc field is written by the producer and read by the consumer; Usage->KeyUsageError, Retryable->Temporary()", 12)
	c.Rule(rf, "tokencache returns a cached key only when no id is pinned or ids are equal, does not cache under a pinned id, holds its mutex; handler installs WithKeyID; SignContext sends the key id", 5)

	dr := p.Func("token/worker.(*WorkerToken).doRetry")
	if dr == nil {
		c.Undecided(ra, "(*WorkerToken).doRetry", "-", "function not found")
	} else {
		c15Retry(c, dr, ra, rb, rc)
	}
	c15Once(c, rc, re)
	c15Handler(c, rd, re, rf)
	c15Cache(c, rf)
	c15RPC(c, re)
	c15Transparent(c)
	c15RequestContext(c)
}

func c15Retry(c *Ctx, dr *ssa.Function, ra, rb, rc string) {
	p := c.P
	c.Analysed(p.FName(dr))
	fname := p.FName(dr)
	var attempts []ssa.CallInstruction
	if once := workerAttemptFn(p); once != nil {
		for _, ci := range callsOf(dr) {
			if ci.Common().StaticCallee() == once {
				attempts = append(attempts, ci)
			}
		}
	}
	if len(attempts) != 1 {
		c.Undecided(ra, fname+" attempt call", p.Pos(dr.Pos()), fmt.Sprintf("%d calls to doOnce, the rule understands exactly one", len(attempts)))
		return
	}
	att := attempts[0].(*ssa.Call)
	var errV, respV ssa.Value
	for _, r := range *att.Referrers() {
		if e, ok := r.(*ssa.Extract); ok {
			if e.Index == 1 {
				errV = e
			} else {
				respV = e
			}
		}
	}
	if errV == nil {
		c.Fail(ra, fname+" attempt error", p.Pos(att.Pos()), "the attempt's error is discarded")
		return
	}
	ab := att.Block()
	// --- bounded loop
	if !inCycleWith(dr, ab, nil) {
		c.Fail(ra, fname+" loop", p.Pos(att.Pos()), "the attempt is not inside a retry loop")
		return
	}
	// candidate bound tests: If on BinOp(<,<=,>,>=) between an induction phi and a bound
	type boundTest struct {
		ifb     *ssa.BasicBlock
		contIdx int // successor that continues the loop
		counter *ssa.Phi
		bound   ssa.Value
		init    int64
		strict  bool
	}
	var bt *boundTest
	for _, b := range dr.Blocks {
		ifi, ok := b.Instrs[len(b.Instrs)-1].(*ssa.If)
		if !ok {
			continue
		}
		bo, ok := ifi.Cond.(*ssa.BinOp)
		if !ok {
			continue
		}
		var ctr *ssa.Phi
		var bound ssa.Value
		cont := 0
		strict := false
		switch bo.Op {
		case token.LSS, token.LEQ:
			if ph, ok := bo.X.(*ssa.Phi); ok {
				ctr, bound, cont = ph, bo.Y, 0
			}
			strict = bo.Op == token.LSS
		case token.GTR, token.GEQ:
			if ph, ok := bo.Y.(*ssa.Phi); ok {
				ctr, bound, cont = ph, bo.X, 0
			}
			strict = bo.Op == token.GTR
		}
		if ctr == nil {
			continue
		}
		// induction: edges are a constant init and ctr + positive const
		var init int64
		okInd := true
		hasInit, hasStep := false, false
		for _, e := range ctr.Edges {
			if k, ok := constInt(e); ok {
				init, hasInit = k, true
				continue
			}
			add, ok := e.(*ssa.BinOp)
			if ok && add.Op == token.ADD && add.X == ctr {
				if k, ok := constInt(add.Y); ok && k > 0 {
					hasStep = true
					continue
				}
			}
			okInd = false
		}
		if !okInd || !hasInit || !hasStep {
			continue
		}
		// every cycle through the attempt passes the continue edge of this test
		del := map[edge]bool{{b.Index, cont}: true}
		if inCycleWith(dr, ab, del) {
			continue
		}
		bt = &boundTest{b, cont, ctr, bound, init, strict}
	}
	if bt == nil {
		c.Fail(ra, fname+" bounded", p.Pos(att.Pos()), "no `counter < bound` test on an induction variable lies on every cycle through the attempt: the number of attempts is not bounded by a counter")
	} else {
		// bound derives from the configured retries or a constant default
		okSrc := true
		var srcs []string
		for _, lf := range phiLeaves(bt.bound, nil, map[*ssa.Phi]bool{}) {
			if k, ok := constInt(lf.V); ok {
				srcs = append(srcs, fmt.Sprint(k))
				continue
			}
			if t, f, _ := p.fieldLoad(lf.V); t == "config.TokenConfig" && f == "Retries" {
				srcs = append(srcs, t+"."+f)
				continue
			}
			okSrc = false
			srcs = append(srcs, short(lf.V.String(), 30))
		}
		c.Check(okSrc, ra, fname+" bounded", p.Pos(bt.ifb.Instrs[len(bt.ifb.Instrs)-1].Pos()), fmt.Sprintf("every iteration passes counter<bound; bound from %v", srcs), fmt.Sprintf("loop bound is not the configured retry count / default: %v", srcs))
	}
	// --- retry only via Temporary(err)==true of this attempt's error
	okEdges := passEdges(dr, Guard{Match: func(f Fact) bool { return f.Kind == IsNil && stripConv(f.V) == errV }})
	temp := p.callGuard("Temporary(err)==true", []string{"internal/httperror.Temporary"}, -1, IsTrue, func(ci ssa.CallInstruction) bool {
		return stripConv(ci.Common().Args[0]) == errV
	})
	// or through a helper of the package that classifies the failure: its boolean answer can be true
	// only where Temporary(the error it was handed) was
	direct := temp
	temp = Guard{Name: direct.Name, Match: func(f Fact) bool {
		if direct.Match(f) {
			return true
		}
		if f.Kind != IsTrue {
			return false
		}
		call, idx := resultOf(f.V)
		if call == nil {
			return false
		}
		g := call.Common().StaticCallee()
		if g == nil || pkgOf(g) != pkgOf(dr) || len(g.Blocks) == 0 {
			return false
		}
		if idx < 0 {
			idx = 0
		}
		for k, a := range call.Common().Args {
			if stripConv(a) != errV || k >= len(g.Params) {
				continue
			}
			par := g.Params[k]
			inner := p.callGuard("Temporary(err)==true", []string{"internal/httperror.Temporary"}, -1, IsTrue, func(ci ssa.CallInstruction) bool {
				return stripConv(ci.Common().Args[0]) == ssa.Value(par)
			})
			all := true
			for _, r := range returnsOf(g) {
				if idx >= len(r.Results) {
					all = false
					continue
				}
				if b, isK := boolConst(retVal(r, idx)); isK && !b {
					continue
				}
				if missing, _ := p.trueReturnMissing(g, r, idx, inner); len(missing) > 0 {
					all = false
				}
			}
			if all {
				return true
			}
		}
		return false
	}}
	tempEdges := passEdges(dr, temp)
	del := map[edge]bool{}
	for e := range okEdges {
		del[e] = true
	}
	for e := range tempEdges {
		del[e] = true
	}
	pred := map[int]int{}
	if len(tempEdges) == 0 {
		c.Fail(ra, fname+" classification", p.Pos(att.Pos()), "httperror.Temporary is never applied to the attempt's error: every failure (including key-usage and permanent errors) would be retried")
	} else if reachAfter(dr, att, del, pred)[ab.Index] {
		c.Fail(ra, fname+" classification", p.Pos(att.Pos()), "a failed attempt can reach the next attempt without passing Temporary(err)==true: permanent errors are retried", p.witness(dr, pred, ab.Index)...)
	} else {
		c.Pass(ra, fname+" classification", p.Pos(att.Pos()), "next attempt reachable from a failure only through Temporary(err)==true")
	}
	// --- failures return the same error value
	failStarts := []*ssa.BasicBlock{}
	for e := range passEdges(dr, Guard{Match: func(f Fact) bool { return f.Kind == NonNil && stripConv(f.V) == errV }}) {
		failStarts = append(failStarts, dr.Blocks[e.from].Succs[e.succ])
	}
	// block re-entry into the attempt so that we only look at this attempt's failure
	intoAttempt := map[edge]bool{}
	for _, b := range dr.Blocks {
		for si, s := range b.Succs {
			if s == ab {
				intoAttempt[edge{b.Index, si}] = true
			}
		}
	}
	zeroTripOK, zeroWhy := false, "no bound test"
	if bt != nil {
		c0 := bt.init
		if !bt.strict {
			c0 = bt.init - 1
		}
		zeroTripOK, zeroWhy = p.provedGreater(dr, bt.bound, c0)
	}
	failSeen := reach(dr, failStarts, intoAttempt, nil)
	succEdgesDel := passEdges(dr, Guard{Match: func(f Fact) bool { return f.Kind == IsNil && stripConv(f.V) == errV }})
	noSuccess := reach(dr, []*ssa.BasicBlock{dr.Blocks[0]}, succEdgesDel, nil)
	nRet := 0
	for _, r := range returnsOf(dr) {
		ei := errResultIndex(dr.Signature)
		ev := retVal(r, ei)
		nRet++
		key := fmt.Sprintf("%s return@%s", fname, retShape(p, ev, errV))
		// R15b: may-be-nil returns need a successful attempt
		leaves := phiLeaves(ev, r.Block(), map[*ssa.Phi]bool{})
		mayNil := false
		var why string
		for _, lf := range leaves {
			switch {
			case isNilConst(lf.V):
				if _, isPhi := ev.(*ssa.Phi); !isPhi {
					// literal `return x, nil`
					if noSuccess[r.Block().Index] {
						mayNil = true
						why = "`return …, nil` is reachable without a successful attempt"
					}
					continue
				}
				// nil flowing in from before the loop: only a zero-iteration loop delivers it
				if !zeroTripOK {
					mayNil = true
					why = "the error variable is still nil when the loop body never runs: " + zeroWhy
				}
			case stripConv(lf.V) == errV:
				if lf.From != nil && !p.knownNonNilAt(dr, errV, lf.From) {
					mayNil = true
					why = "the attempt's error flows to this return on a path where it may be nil"
				}
			default:
				// other error sources (ctx.Err()) are refusals, checked by R15c
			}
		}
		if isNilConst(ev) || len(leaves) > 1 || mayNil {
			c.Check(!mayNil, rb, key, p.Pos(r.Pos()), "nil error only after a successful attempt", "doRetry can report success (nil error) although no attempt succeeded: "+why)
		}
		// success return carries the attempt's response
		if isNilConst(ev) && !mayNil {
			c.Check(stripConv(retVal(r, 0)) == respV, rb, key+" response", p.Pos(r.Pos()), "returns the successful attempt's response", "the success return does not carry the successful attempt's response")
		}
		// R15a: failure returns reachable from this attempt's failure keep the error value
		if failSeen[r.Block().Index] && !isNilConst(ev) {
			same := true
			for _, lf := range leaves {
				if isNilConst(lf.V) || stripConv(lf.V) == errV {
					continue
				}
				if call, ok := lf.V.(*ssa.Call); ok && p.calleeName(call.Common()) == "(context.Context).Err" {
					continue
				}
				same = false
			}
			c.Check(same, ra, key+" unwrapped", p.Pos(r.Pos()), "failure returned as the attempt's own error value", "a failed attempt's error is replaced or wrapped before being returned: Temporary()/KeyUsageError classification is lost")
		}
	}
	// --- R15c cancellation between wait and next attempt
	baseCtx := func(v ssa.Value) bool {
		call, ok := v.(*ssa.Call)
		return ok && p.calleeName(call.Common()) == "(*net/http.Request).Context"
	}
	errNil := Guard{Name: "baseCtx.Err()==nil", Match: func(f Fact) bool {
		if f.Kind != IsNil {
			return false
		}
		call, _ := resultOf(f.V)
		return call != nil && p.calleeName(call.Common()) == "(context.Context).Err" && baseCtx(call.Common().Value)
	}}
	nWait := 0
	for _, b := range dr.Blocks {
		for _, in := range b.Instrs {
			u, ok := in.(*ssa.UnOp)
			if !ok || u.Op != token.ARROW {
				continue
			}
			nWait++
			delc := passEdges(dr, errNil)
			pred := map[int]int{}
			bad := reachableAfter(dr, u, att, delc, pred)
			c.Check(!bad, rc, fmt.Sprintf("%s wait#%d then-cancel-check", fname, nWait), p.Pos(u.Pos()), "request context re-checked after the backoff wait", "after the backoff wait the next attempt starts without checking that the caller's context is still live", p.witness(dr, pred, ab.Index)...)
			// the wait itself is bounded by a context derived from the request context
			okCtx := dependsOn(u.X, func(x ssa.Value) bool {
				call, ok := x.(*ssa.Call)
				return ok && p.calleeName(call.Common()) == "context.WithTimeout" && baseCtx(call.Call.Args[0])
			})
			c.Check(okCtx, rc, fmt.Sprintf("%s wait#%d cancellable", fname, nWait), p.Pos(u.Pos()), "backoff wait ends on timeout or caller cancellation", "backoff wait does not observe the caller's context (cancellation is not prompt)")
		}
	}
	// select-based waits: some case must receive from a channel tied to the caller's context
	for _, b := range dr.Blocks {
		for _, in := range b.Instrs {
			sel, ok := in.(*ssa.Select)
			if !ok || !sel.Blocking {
				continue
			}
			nWait++
			cancellable := false
			for _, st := range sel.States {
				if dependsOn(st.Chan, func(x ssa.Value) bool {
					call, ok := x.(*ssa.Call)
					if !ok || p.calleeName(call.Common()) != "(context.Context).Done" {
						return false
					}
					return dependsOn(call.Common().Value, baseCtx)
				}) {
					cancellable = true
				}
			}
			c.Check(cancellable, rc, fmt.Sprintf("%s wait#%d cancellable", fname, nWait), p.Pos(sel.Pos()), "backoff select includes the caller's Done channel", "backoff wait does not observe the caller's context (cancellation is not prompt)")
			delc := passEdges(dr, errNil)
			pred := map[int]int{}
			bad := reachableAfter(dr, sel, att, delc, pred)
			c.Check(!bad, rc, fmt.Sprintf("%s wait#%d then-cancel-check", fname, nWait), p.Pos(sel.Pos()), "request context re-checked after the backoff wait", "after the backoff wait the next attempt starts without checking that the caller's context is still live", p.witness(dr, pred, ab.Index)...)
		}
	}
	if nWait == 0 {
		// time.Sleep-style waits are not cancellable
		for _, ci := range p.callsIn(dr, "time.Sleep") {
			c.Fail(rc, fname+" sleep", p.Pos(ci.Pos()), "uncancellable sleep in the retry loop")
		}
		c.Fail(rc, fname+" wait", p.Pos(dr.Pos()), "no backoff wait on a context found between attempts")
	}
}

func retShape(p *Prog, ev ssa.Value, errV ssa.Value) string {
	switch {
	case isNilConst(ev):
		return "nil"
	case stripConv(ev) == errV:
		return "attempt-err"
	}
	switch x := ev.(type) {
	case *ssa.Phi:
		return "phi:" + x.Comment
	case *ssa.Call:
		return "call:" + p.calleeName(x.Common())
	}
	return "other"
}

func c15Once(c *Ctx, rc, re string) {
	p := c.P
	do := workerAttemptFn(p)
	if do == nil {
		c.Undecided(rc, "(*WorkerToken).doOnce", "-", "function not found")
		return
	}
	c.Analysed(p.FName(do))
	fname := p.FName(do)
	dos := p.callsIn(do, "(*net/http.Client).Do")
	if len(dos) != 1 {
		c.Undecided(rc, fname+" Do", p.Pos(do.Pos()), fmt.Sprintf("%d http Do calls", len(dos)))
	} else {
		arg := dos[0].Common().Args[1]
		fromReq := dependsOn(arg, func(x ssa.Value) bool {
			call, ok := x.(*ssa.Call)
			return ok && p.calleeName(call.Common()) == "context.WithTimeout" && dependsOn(call.Call.Args[0], func(y ssa.Value) bool {
				c2, ok := y.(*ssa.Call)
				return ok && p.calleeName(c2.Common()) == "(*net/http.Request).Context"
			})
		})
		bg := dependsOn(arg, func(x ssa.Value) bool {
			call, ok := x.(*ssa.Call)
			return ok && (p.calleeName(call.Common()) == "context.Background" || p.calleeName(call.Common()) == "context.TODO")
		})
		c.Check(fromReq && !bg, rc, fname+" attempt context", p.Pos(dos[0].Pos()), "attempt runs under WithTimeout(req.Context())", "the per-attempt context is detached from the caller's context: cancellation/timeout does not end the operation")
	}
	// body rebuilt per attempt (shared with C09)
	gb := 0
	for _, b := range do.Blocks {
		for _, in := range b.Instrs {
			if call, ok := in.(*ssa.Call); ok && !call.Call.IsInvoke() && call.Call.StaticCallee() == nil {
				if _, f, _ := p.fieldLoad(call.Call.Value); f == "GetBody" {
					gb++
				}
			}
		}
	}
	c.Check(gb == 1, rc, fname+" GetBody per attempt", p.Pos(do.Pos()), "request body re-created for each attempt", "request body is not re-created per attempt (a retried request would send an empty/partial body)")
	// classification mapping
	usage := Guard{Name: "rresp.Usage==true", Match: func(f Fact) bool {
		t, fld, _ := p.fieldLoad(f.V)
		return f.Kind == IsTrue && t == "internal/workerrpc.Response" && fld == "Usage"
	}}
	errEmpty := Guard{Name: `rresp.Err==""`, Match: func(f Fact) bool {
		if f.Kind != IsTrue {
			return false
		}
		bo, ok := f.V.(*ssa.BinOp)
		if !ok || bo.Op != token.EQL {
			return false
		}
		t, fld, _ := p.fieldLoad(bo.X)
		s, isS := constString(bo.Y)
		return t == "internal/workerrpc.Response" && fld == "Err" && isS && s == ""
	}}
	status := Guard{Name: "StatusCode==200", Match: func(f Fact) bool {
		bo, ok := f.V.(*ssa.BinOp)
		if !ok {
			return false
		}
		_, fld, _ := p.fieldLoad(bo.X)
		k, isK := constInt(bo.Y)
		if fld != "StatusCode" || !isK || k != 200 {
			return false
		}
		return (bo.Op == token.NEQ && f.Kind == IsFalse) || (bo.Op == token.EQL && f.Kind == IsTrue)
	}}
	doOK := p.callGuard("Do err==nil", []string{"(*net/http.Client).Do"}, 1, IsNil, nil)
	unm := p.callGuard("Unmarshal err==nil", []string{"encoding/json.Unmarshal"}, -1, IsNil, nil)
	n := 0
	for _, r := range returnsOf(do) {
		ev := retVal(r, 1)
		n++
		if isNilConst(ev) {
			missing, path := p.unguardedFromEntry(do, r, doOK, status, unm, errEmpty)
			c.Check(len(missing) == 0, re, fmt.Sprintf("%s success-return", fname), p.Pos(r.Pos()), "success only for HTTP 200, parsed reply, empty Err", fmt.Sprintf("doOnce reports success without %v", missing), path...)
			continue
		}
		mi, ok := ev.(*ssa.MakeInterface)
		if !ok {
			continue
		}
		switch typeName(p, mi.X.Type()) {
		case "token.KeyUsageError":
			missing, path := p.unguardedFromEntry(do, r, usage)
			c.Check(len(missing) == 0, re, fname+" KeyUsageError iff Usage", p.Pos(r.Pos()), "KeyUsageError built only when the worker flagged Usage", "KeyUsageError returned without the Usage flag", path...)
		case "token/worker.tokenError":
			// Retryable field of the literal comes from rresp.Retryable
			okR := dependsOn(mi.X, func(x ssa.Value) bool {
				t, fld, _ := p.fieldLoad(x)
				return t == "internal/workerrpc.Response" && fld == "Retryable"
			})
			c.Check(okR, re, fname+" tokenError.Retryable", p.Pos(r.Pos()), "tokenError.Retryable copied from the reply", "tokenError.Retryable is not taken from the worker's reply")
		}
	}
	// the Usage branch must exist and precede the generic error
	c.Check(len(passEdges(do, usage)) > 0, re, fname+" Usage branch", p.Pos(do.Pos()), "", "reply.Usage is never tested: key-usage errors lose their classification")
	// tokenError.Temporary returns the Retryable field
	if tf := p.Func("token/worker.(tokenError).Temporary"); tf == nil {
		c.Undecided(re, "tokenError.Temporary", "-", "method not found: retryable classification cannot cross the RPC boundary")
	} else {
		ok := true
		for _, r := range returnsOf(tf) {
			_, fld, _ := p.fieldLoad(retVal(r, 0))
			if fld != "Retryable" {
				ok = false
			}
		}
		c.Check(ok, re, "(token/worker.tokenError).Temporary", p.Pos(tf.Pos()), "returns the Retryable flag", "Temporary() does not return the Retryable flag")
	}
}

func c15Handler(c *Ctx, rd, re, rf string) {
	p := c.P
	sh := p.Func("cmdline/workercmd.(*handler).ServeHTTP")
	if sh == nil {
		c.Undecided(rd, "(*handler).ServeHTTP", "-", "function not found")
		return
	}
	c.Analysed(p.FName(sh))
	fname := p.FName(sh)
	cookieOK := p.callGuard("hmac.Equal(cookie)==true", []string{"crypto/hmac.Equal", "crypto/subtle.ConstantTimeCompare"}, -1, IsTrue, func(ci ssa.CallInstruction) bool {
		a := ci.Common().Args
		if len(a) != 2 {
			return false
		}
		isSecret := func(v ssa.Value) bool {
			return dependsOn(v, func(x ssa.Value) bool { return p.isFieldOf(x, "cmdline/workercmd.handler", "cookie") })
		}
		isHeader := func(v ssa.Value) bool {
			return dependsOn(v, func(x ssa.Value) bool {
				call, ok := x.(*ssa.Call)
				if !ok || p.calleeName(call.Common()) != "(net/http.Header).Get" {
					return false
				}
				s, _ := constString(call.Call.Args[1])
				return s == "Auth-Cookie"
			})
		}
		return (isSecret(a[0]) && isHeader(a[1])) || (isSecret(a[1]) && isHeader(a[0]))
	})
	n := 0
	for _, b := range sh.Blocks {
		for _, in := range b.Instrs {
			ci, ok := in.(ssa.CallInstruction)
			if !ok {
				continue
			}
			name := p.calleeName(ci.Common())
			isDispatch := name == "(*cmdline/workercmd.handler).handle"
			// any use of the token from ServeHTTP itself
			if !isDispatch {
				for _, a := range ci.Common().Args {
					if dependsOn(a, func(x ssa.Value) bool { return p.isFieldOf(x, "cmdline/workercmd.handler", "token") }) {
						isDispatch = true
					}
				}
				if ci.Common().IsInvoke() && dependsOn(ci.Common().Value, func(x ssa.Value) bool { return p.isFieldOf(x, "cmdline/workercmd.handler", "token") }) {
					isDispatch = true
				}
			}
			if !isDispatch {
				continue
			}
			n++
			missing, path := p.unguardedFromEntry(sh, ci, cookieOK)
			c.Check(len(missing) == 0, rd, fmt.Sprintf("%s dispatch#%d %s", fname, n, name), p.Pos(ci.Pos()), "dispatch only after the cookie matched", "worker request is dispatched without the per-process secret having been verified (constant-time compare of Auth-Cookie with h.cookie)", path...)
		}
	}
	c.Check(n > 0, rd, fname+" dispatch found", p.Pos(sh.Pos()), "", "no dispatch call found in ServeHTTP")
	// refusal writes 403
	edges := passEdges(sh, p.callGuard("", []string{"crypto/hmac.Equal", "crypto/subtle.ConstantTimeCompare"}, -1, IsFalse, nil))
	okRefuse := len(edges) > 0
	for e := range edges {
		start := sh.Blocks[e.from].Succs[e.succ]
		// blocks that write a 401/403
		blocked := map[edge]bool{}
		startHas := false
		for _, b := range sh.Blocks {
			has := false
			for _, in := range b.Instrs {
				if ci, ok := in.(ssa.CallInstruction); ok {
					nm := p.calleeName(ci.Common())
					if nm == "(net/http.ResponseWriter).WriteHeader" {
						if k, ok := constInt(ci.Common().Args[0]); ok && (k == 403 || k == 401) {
							has = true
						}
					}
					if nm == "net/http.Error" {
						if k, ok := constInt(ci.Common().Args[2]); ok && (k == 403 || k == 401) {
							has = true
						}
					}
				}
			}
			if has {
				if b == start {
					startHas = true
				}
				for _, pb := range b.Preds {
					for si, s := range pb.Succs {
						if s == b {
							blocked[edge{pb.Index, si}] = true
						}
					}
				}
			}
		}
		if startHas {
			continue
		}
		seen := reach(sh, []*ssa.BasicBlock{start}, blocked, nil)
		for _, r := range returnsOf(sh) {
			if seen[r.Block().Index] {
				okRefuse = false
			}
		}
	}
	c.Check(okRefuse, rd, fname+" refusal status", p.Pos(sh.Pos()), "mismatching cookie is answered with 403", "the refusal path does not answer 401/403")

	// error classification written into the reply (producer side of Retryable/Usage/Key/Err)
	// KeyUsageError case stores Usage=true and Retryable=false
	usageTrue, retryFalseInUsage := false, false
	for _, b := range sh.Blocks {
		var setsUsage, setsRetryFalse bool
		for _, in := range b.Instrs {
			if st, ok := in.(*ssa.Store); ok {
				t, f, _ := p.fieldAddr(st.Addr)
				if t != "internal/workerrpc.Response" {
					continue
				}
				if bv, ok := boolConst(st.Val); ok {
					if f == "Usage" && bv {
						setsUsage = true
					}
					if f == "Retryable" && !bv {
						setsRetryFalse = true
					}
				}
			}
		}
		if setsUsage {
			usageTrue = true
			// the block is the KeyUsageError type-switch arm
			if setsRetryFalse {
				retryFalseInUsage = true
			}
		}
	}
	c.Check(usageTrue && retryFalseInUsage, re, fname+" KeyUsageError arm", p.Pos(sh.Pos()), "KeyUsageError sets Usage=true, Retryable=false", "the KeyUsageError arm does not mark the reply as a non-retryable usage error")

	// the classification above switches on the dynamic type of the error (TypeAssert, not
	// errors.As): handle must therefore return token errors unwrapped
	usesTypeSwitch := false
	var handleErr ssa.Value
	for _, ci := range p.callsIn(sh, "(*cmdline/workercmd.handler).handle") {
		handleErr = errValueOf(ci)
	}
	if handleErr != nil {
		for _, r := range *handleErr.Referrers() {
			if _, ok := r.(*ssa.TypeAssert); ok {
				usesTypeSwitch = true
			}
		}
	}
	if hh := p.Func("cmdline/workercmd.(*handler).handle"); hh != nil && usesTypeSwitch {
		tokenErr := func(v ssa.Value) bool {
			call, idx := resultOf(v)
			if call == nil {
				return false
			}
			ei := errResultIndex(call.Common().Signature())
			if ei < 0 || !(idx == ei || (idx < 0 && call.Common().Signature().Results().Len() == 1)) {
				return false
			}
			switch p.calleeName(call.Common()) {
			case "(*token/tokencache.Cache).GetKey", "(token.Key).SignContext", "(*token/tokencache.Cache).Ping", "(token.Token).Ping", "(token.Token).GetKey", "(crypto.Signer).Sign":
				return true
			}
			return false
		}
		n := 0
		for _, r := range returnsOf(hh) {
			ev := retVal(r, 1)
			if isNilConst(ev) {
				continue
			}
			for _, lf := range phiLeaves(ev, r.Block(), map[*ssa.Phi]bool{}) {
				if isNilConst(lf.V) || tokenErr(lf.V) {
					continue
				}
				// anything else must not be derived from a token error
				wraps := dependsOn(lf.V, tokenErr)
				n++
				c.Check(!wraps, re, fmt.Sprintf("%s returns token errors unwrapped#%d", p.FName(hh), n), p.Pos(r.Pos()), "not derived from a token error", "a token error is wrapped before ServeHTTP classifies it by dynamic type: key-usage / fatal / permanent classification is lost and the failure becomes retryable")
			}
		}
		c.Pass(re, p.FName(hh)+" error identity preserved for the type switch", p.Pos(hh.Pos()), "ServeHTTP classifies by type switch; handle returns token errors as they are")
	}

	// handle(): WithKeyID installed when rr.KeyID != nil, before any token call
	// the function of the worker command that pins the key id (handle today; a dispatch step split
	// off it carries the pinning and the token calls with it)
	h := p.Func("cmdline/workercmd.(*handler).handle")
	for _, fn := range p.pkgFuncs("cmdline/workercmd") {
		if len(p.callsIn(fn, "token.WithKeyID")) > 0 && (h == nil || len(p.callsIn(h, "token.WithKeyID")) == 0) {
			h = fn
		}
	}
	if h == nil {
		c.Undecided(rf, "(*handler).handle", "-", "function not found")
		return
	}
	c.Analysed(p.FName(h))
	wk := p.callsIn(h, "token.WithKeyID")
	okWK := len(wk) == 1
	if okWK {
		okWK = dependsOn(wk[0].Common().Args[1], func(x ssa.Value) bool {
			t, f, _ := p.fieldLoad(x)
			if t == "internal/workerrpc.Request" && f == "KeyID" {
				return true
			}
			t, f, _ = p.fieldAddr(x)
			return t == "internal/workerrpc.Request" && f == "KeyID"
		})
	}
	pos := p.Pos(h.Pos())
	if len(wk) > 0 {
		pos = p.Pos(wk[0].Pos())
	}
	c.Check(okWK, rf, p.FName(h)+" installs pinned key id", pos, "ctx = token.WithKeyID(ctx, rr.KeyID)", "the pinned key id from the request is not installed in the context")
	// every GetKey/SignContext call uses a ctx that can carry the pinned id: ctx is phi(req.Context(), WithKeyID(...))
	if okWK {
		wkv := wk[0].(*ssa.Call)
		n := 0
		for _, ci := range p.callsIn(h, "(*token/tokencache.Cache).GetKey", "(token.Key).SignContext", "(token.Token).GetKey") {
			n++
			arg := ci.Common().Args[0]
			if ci.Common().IsInvoke() {
				arg = ci.Common().Args[0]
			} else {
				arg = ci.Common().Args[1]
			}
			uses := dependsOn(arg, func(x ssa.Value) bool { return x == wkv })
			// and the WithKeyID branch is taken exactly when KeyID != nil
			c.Check(uses, rf, fmt.Sprintf("%s %s#%d ctx", p.FName(h), p.calleeName(ci.Common()), n), p.Pos(ci.Pos()), "call receives the context carrying the pinned key id", "token call does not receive the context that carries the pinned key id")
		}
		g := Guard{Name: "rr.KeyID != nil", Match: func(f Fact) bool {
			t, fld, _ := p.fieldLoad(f.V)
			return f.Kind == NonNil && t == "internal/workerrpc.Request" && fld == "KeyID"
		}}
		// the phi merging ctx must take WithKeyID on the KeyID!=nil side: i.e. the plain ctx leaf comes only from the nil side
		for _, ci := range p.callsIn(h, "(*token/tokencache.Cache).GetKey") {
			arg := ci.Common().Args[1]
			for _, lf := range phiLeaves(arg, nil, map[*ssa.Phi]bool{}) {
				if lf.V == wkv || lf.From == nil {
					continue
				}
				// plain context leaf: its edge must be unreachable when KeyID != nil … i.e. reachable only via the nil edge
				nonNilEdges := passEdges(h, g)
				var starts []*ssa.BasicBlock
				for e := range nonNilEdges {
					starts = append(starts, h.Blocks[e.from].Succs[e.succ])
				}
				// from the non-nil side, can we arrive at lf.From without passing the WithKeyID block?
				blocked := map[edge]bool{}
				for _, pb := range wkv.Block().Preds {
					for si, s := range pb.Succs {
						if s == wkv.Block() {
							blocked[edge{pb.Index, si}] = true
						}
					}
				}
				bad := false
				for _, s := range starts {
					if s == wkv.Block() {
						continue
					}
					if reach(h, []*ssa.BasicBlock{s}, blocked, nil)[lf.From.Index] {
						bad = true
					}
				}
				c.Check(!bad && len(nonNilEdges) > 0, rf, p.FName(h)+" pinned id always installed", p.Pos(ci.Pos()), "when KeyID is present the un-pinned context never reaches GetKey", "a request with a KeyID can reach GetKey with the un-pinned context")
			}
		}
	}
}

func c15Cache(c *Ctx, rf string) {
	keyCacheRule(c, rf)
}

// keyCacheRule is shared by C15 (R15f) and C07 (R07f).
func keyCacheRule(c *Ctx, rf string) {
	p := c.P
	gk := p.Func("token/tokencache.(*Cache).GetKey")
	if gk == nil {
		c.Undecided(rf, "(*Cache).GetKey", "-", "function not found")
		return
	}
	c.Analysed(p.FName(gk))
	fname := p.FName(gk)
	wantID := func(v ssa.Value) bool {
		return dependsOn(v, func(x ssa.Value) bool {
			call, ok := x.(*ssa.Call)
			return ok && p.calleeName(call.Common()) == "token.KeyID"
		})
	}
	noPin := Guard{Name: "len(wantKeyID)==0", Match: func(f Fact) bool {
		if f.Kind != IsTrue {
			return false
		}
		bo, ok := f.V.(*ssa.BinOp)
		if !ok || bo.Op != token.EQL || !isIntConst(bo.Y, 0) {
			return false
		}
		call, ok := bo.X.(*ssa.Call)
		if !ok {
			return false
		}
		bi, ok := call.Call.Value.(*ssa.Builtin)
		return ok && bi.Name() == "len" && wantID(call.Call.Args[0])
	}}
	same := p.callGuard("bytes.Equal(want,have)==true", []string{"bytes.Equal", "crypto/hmac.Equal", "crypto/subtle.ConstantTimeCompare"}, -1, IsTrue, func(ci ssa.CallInstruction) bool {
		a := ci.Common().Args
		isHave := func(v ssa.Value) bool {
			return dependsOn(v, func(x ssa.Value) bool {
				call, ok := x.(*ssa.Call)
				return ok && p.calleeName(call.Common()) == "(token.Key).GetID"
			})
		}
		return len(a) == 2 && ((wantID(a[0]) && isHave(a[1])) || (wantID(a[1]) && isHave(a[0])))
	})
	either := Guard{Name: "no pinned id or ids equal", Match: func(f Fact) bool { return noPin.Match(f) || same.Match(f) }}
	// origin of a returned key: "fresh" = result of the inner Token.GetKey made by this
	// very call; "shared" = anything read from state reachable from the receiver (the
	// cache map, an in-flight table, …). Shared keys need the pinned-id guard.
	recv := gk.Params[0]
	rootedAtRecv := func(v ssa.Value) bool {
		for i := 0; i < 20 && v != nil; i++ {
			switch x := v.(type) {
			case *ssa.Parameter:
				return x == recv
			case *ssa.FieldAddr:
				v = x.X
			case *ssa.Field:
				v = x.X
			case *ssa.IndexAddr:
				v = x.X
			case *ssa.Lookup:
				v = x.X
			case *ssa.UnOp:
				v = x.X
			case *ssa.Extract:
				v = x.Tuple
			case *ssa.Phi:
				for _, e := range x.Edges {
					if dependsOn(e, func(y ssa.Value) bool { return y == recv }) {
						return true
					}
				}
				return false
			default:
				return false
			}
		}
		return false
	}
	origin := func(v ssa.Value) (fresh, shared bool) {
		seen := map[ssa.Value]bool{}
		var walk func(v ssa.Value, d int)
		walk = func(v ssa.Value, d int) {
			if v == nil || seen[v] || d > 40 {
				return
			}
			seen[v] = true
			if call, _ := resultOf(v); call != nil {
				switch p.calleeName(call.Common()) {
				case "(token.Token).GetKey":
					fresh = true
					return
				}
				// a helper of the cache that reads the shared map hands out shared state
				if g := call.Common().StaticCallee(); g != nil && g.Blocks != nil && pkgOf(g) == pkgOf(gk) {
					if len(p.accessesOf(g, map[string]bool{"f:token/tokencache.Cache.keys": true})) > 0 {
						shared = true
						return
					}
				}
			}
			switch x := v.(type) {
			case *ssa.Lookup:
				if rootedAtRecv(x.X) {
					shared = true
					return
				}
			case *ssa.UnOp:
				if x.Op == token.MUL {
					if _, isAlloc := x.X.(*ssa.Alloc); !isAlloc && rootedAtRecv(x.X) {
						// load through a pointer obtained from receiver state
						if fa, ok := x.X.(*ssa.FieldAddr); ok {
							if _, f, _ := p.fieldAddr(fa); f == "Token" {
								return
							}
						}
						shared = true
						return
					}
				}
			case *ssa.Alloc:
				// local object: follow what was stored into it
				var addrs = []ssa.Value{x}
				for i := 0; i < len(addrs) && i < 32; i++ {
					refs := addrs[i].Referrers()
					if refs == nil {
						continue
					}
					for _, r := range *refs {
						switch r := r.(type) {
						case *ssa.Store:
							if r.Addr == addrs[i] {
								walk(r.Val, d+1)
							}
						case *ssa.FieldAddr:
							if r.X == addrs[i] {
								addrs = append(addrs, r)
							}
						}
					}
				}
				return
			}
			if in, ok := v.(ssa.Instruction); ok {
				for _, op := range in.Operands(nil) {
					if op != nil && *op != nil {
						walk(*op, d+1)
					}
				}
			}
		}
		walk(v, 0)
		return
	}
	n := 0
	nFresh := 0
	for _, r := range returnsOf(gk) {
		v := retVal(r, 0)
		if isNilConst(v) {
			continue
		}
		fresh, shared := origin(v)
		if fresh && !shared {
			nFresh++
			continue
		}
		if !fresh && !shared {
			c.Undecided(rf, fmt.Sprintf("%s return origin", fname), p.Pos(r.Pos()), "cannot tell where the returned key comes from")
			continue
		}
		n++
		missing, path := p.unguardedFromEntry(gk, r, either)
		c.Check(len(missing) == 0, rf, fmt.Sprintf("%s cached-return#%d", fname, n), p.Pos(r.Pos()), "a key taken from shared cache state is returned only if no id is pinned or the ids are equal", "a key that was not fetched by this very call (cache / in-flight table) can be returned to a request that pinned a different key id", path...)
		// and only if not expired (for entries of the expiring map)
		if dependsOn(v, func(x ssa.Value) bool {
			l, ok := x.(*ssa.Lookup)
			return ok && p.memKey(l.X) == "f:token/tokencache.Cache.keys"
		}) {
			exp := p.callGuard("expires.After(now)==true", []string{"(time.Time).After"}, -1, IsTrue, nil)
			missing, path = p.unguardedFromEntry(gk, r, exp)
			c.Check(len(missing) == 0, rf, fmt.Sprintf("%s cached-return#%d fresh", fname, n), p.Pos(r.Pos()), "cached key returned only before expiry", "an expired cached key can be returned", path...)
		}
	}
	c.Check(nFresh > 0, rf, fname+" fetch-return found", p.Pos(gk.Pos()), "a miss returns the key fetched by this call", "no return of a freshly fetched key found")
	c.Check(n > 0, rf, fname+" cached-return found", p.Pos(gk.Pos()), "", "no return of a cached key found")
	// store into the cache only when no id pinned
	held := p.heldLocks(gk)
	ns := 0
	for _, a := range p.accessesOf(gk, map[string]bool{"f:token/tokencache.Cache.keys": true}) {
		c.Check(lockOK(held[a.Instr], "f:token/tokencache.Cache.mu", a.Write), rf, fmt.Sprintf("%s keys access#%d locked", fname, ns+1), p.Pos(a.Instr.Pos()), "Cache.mu held", "Cache.keys accessed without Cache.mu")
		ns++
		if !a.Write {
			continue
		}
		missing, path := p.unguardedFromEntry(gk, a.Instr, noPin)
		c.Check(len(missing) == 0, rf, fname+" store only un-pinned", p.Pos(a.Instr.Pos()), "a key fetched under a pinned id is not cached", "a key fetched under a pinned id is stored in the cache (later un-pinned callers get the old key)", path...)
	}
	// SignContext sends the key id
	if sc := p.Func("token/worker.(*workerKey).SignContext"); sc == nil {
		c.Undecided(rf, "(*workerKey).SignContext", "-", "function not found")
	} else {
		c.Analysed(p.FName(sc))
		ok := false
		for _, b := range sc.Blocks {
			for _, in := range b.Instrs {
				if st, ok2 := in.(*ssa.Store); ok2 {
					t, f, _ := p.fieldAddr(st.Addr)
					if t == "internal/workerrpc.Request" && f == "KeyID" && dependsOn(st.Val, func(x ssa.Value) bool { return p.isFieldOf(x, "token/worker.workerKey", "id") }) {
						ok = true
					}
				}
			}
		}
		c.Check(ok, rf, p.FName(sc)+" sends key id", p.Pos(sc.Pos()), "Request.KeyID = k.id", "the sign request does not pin the key id obtained at GetKey time")
	}
}

// c15RPC: field agreement between producer and consumer of the RPC structs.
func c15RPC(c *Ctx, re string) {
	p := c.P
	pk := p.Pkg("internal/workerrpc")
	if pk == nil {
		c.Undecided(re, "internal/workerrpc", "-", "package not found")
		return
	}
	sides := map[string][2]string{ // struct -> (producer pkg, consumer pkg)
		"Request":  {"token/worker", "cmdline/workercmd"},
		"Response": {"cmdline/workercmd", "token/worker"},
	}
	for sname, pc := range sides {
		tn, _ := pk.Types.Scope().Lookup(sname).(*types.TypeName)
		if tn == nil {
			c.Undecided(re, "workerrpc."+sname, "-", "type not found")
			continue
		}
		st := tn.Type().Underlying().(*types.Struct)
		full := "internal/workerrpc." + sname
		written := map[string]bool{}
		read := map[string]bool{}
		for _, fn := range p.Funcs {
			pkgRel := ""
			if pkgOf(fn) != nil {
				pkgRel = p.Rel(pkgOf(fn).Path())
			}
			for _, b := range fn.Blocks {
				for _, in := range b.Instrs {
					switch x := in.(type) {
					case *ssa.Store:
						if t, f, _ := p.fieldAddr(x.Addr); t == full && pkgRel == pc[0] {
							written[f] = true
						}
					case *ssa.UnOp:
						if x.Op == token.MUL {
							if t, f, _ := p.fieldAddr(x.X); t == full && pkgRel == pc[1] {
								read[f] = true
							}
						}
					case *ssa.Field:
						if t, f, _ := p.fieldLoad(x); t == full && pkgRel == pc[1] {
							read[f] = true
						}
					case *ssa.FieldAddr:
						// address taken of a field on the consumer side (e.g. *rr.SaltLength)
						if t, f, _ := p.fieldAddr(x); t == full && pkgRel == pc[1] {
							for _, r := range *x.Referrers() {
								if _, isStore := r.(*ssa.Store); !isStore {
									read[f] = true
								}
							}
						}
					}
				}
			}
		}
		for i := 0; i < st.NumFields(); i++ {
			f := st.Field(i).Name()
			key := fmt.Sprintf("workerrpc.%s.%s", sname, f)
			ok := written[f] && read[f]
			c.Check(ok, re, key, p.Pos(st.Field(i).Pos()), "written by "+pc[0]+", read by "+pc[1], fmt.Sprintf("RPC field is not carried across the boundary (written by %s: %v, read by %s: %v)", pc[0], written[f], pc[1], read[f]))
		}
	}
}

// ------------------------------------------------------------------------------ R15g

// c15Transparent: the token wrappers between the worker's RPC handler and the real token
// (key cache, rate limiter) hand the inner token's errors on as they are. The handler classifies
// errors by exact type (type switch / type assertion), so an error that was wrapped on the way
// loses its classification: a permanent error is answered as retryable and a key-usage error
// is no longer reported as one.
func c15Transparent(c *Ctx) {
	p := c.P
	c.Rule("R15g", "token wrappers return the inner token's errors unwrapped (the RPC handler classifies by exact type)", 6)
	n := 0
	for _, fn := range p.pkgFuncs("token/tokencache") {
		ei := errResultIndex(fn.Signature)
		if ei < 0 || fn.Signature.Recv() == nil {
			continue
		}
		// inner calls: invokes on token.Token / token.Key
		var inner []ssa.Value
		for _, b := range fn.Blocks {
			for _, in := range b.Instrs {
				call, ok := in.(*ssa.Call)
				if !ok || !call.Common().IsInvoke() {
					continue
				}
				rt := call.Common().Value.Type().String()
				if !strings.HasSuffix(rt, "token.Token") && !strings.HasSuffix(rt, "token.Key") {
					continue
				}
				if ev := errValueOf(call); ev != nil {
					inner = append(inner, ev)
				}
			}
		}
		if len(inner) == 0 {
			continue
		}
		n++
		c.Analysed(p.FName(fn))
		key := p.FName(fn) + " passes inner errors on unwrapped"
		bad := ""
		for _, r := range returnsOf(fn) {
			for _, lf := range phiLeaves(retVal(r, ei), nil, map[*ssa.Phi]bool{}) {
				call, _ := resultOf(lf.V)
				if call == nil {
					continue
				}
				name := p.calleeName(call.Common())
				if name != "fmt.Errorf" && name != "errors.Join" && !strings.HasSuffix(name, "errors.Wrap") && !strings.HasSuffix(name, "errors.Wrapf") && !strings.HasSuffix(name, "errors.WithMessage") && !p.wrapsItsError(call.Common().StaticCallee()) {
					continue
				}
				for _, iv := range inner {
					if dependsOn(lf.V, func(x ssa.Value) bool { return x == iv }) {
						bad = p.Pos(call.Pos())
					}
				}
			}
		}
		c.Check(bad == "", "R15g", key, p.Pos(fn.Pos()), "", "an error of the inner token is wrapped ("+bad+") before it is returned: the worker's RPC handler classifies errors by exact type, so a wrapped token.KeyUsageError / permanent PKCS#11 error is answered as a retryable failure and the caller retries an operation that can never succeed")
	}
	if n < 5 {
		c.Undecided("R15g", "token wrapper methods", "-", fmt.Sprintf("only %d wrapper methods forwarding to an inner token found (6 confirmed by reading)", n))
	}
}

// workerAttemptFn: the function of token/worker that makes one attempt against the worker process -
// doOnce while that name exists, otherwise the one function of the package that sends the HTTP
// request ((*http.Client).Do).
func workerAttemptFn(p *Prog) *ssa.Function {
	if fn := p.Func("token/worker.(*WorkerToken).doOnce"); fn != nil {
		return fn
	}
	var out *ssa.Function
	for _, fn := range p.pkgFuncs("token/worker") {
		if len(p.callsIn(fn, "(*net/http.Client).Do")) > 0 {
			if out != nil {
				return nil
			}
			out = fn
		}
	}
	return out
}
