package main

// C03 — signing never corrupts or alters the payload.
//
// Byte equality of payload items and well-formedness according to an independent reader are
// facts about concrete bytes and are not decided. Decided: the structural conditions under
// which relic's rewriting *cannot* touch payload bytes — signatures travel as patches or
// detached blobs, the CFB writer only writes into sectors its allocator handed out and the
// allocator only hands out free or new sectors, deleting a stream frees only that stream's
// chain and refuses storages, and the ZIP manglers re-index kept members instead of
// re-writing them.

import (
	"fmt"
	"go/token"
	"sort"
	"strings"

	"golang.org/x/tools/go/ssa"
)

func init() {
	register(&propDef{
		ID: "C03",
		Meta: propMeta{
			Explanation: "Decides structural necessary conditions (nothing is executed): (R03a) every registered signer of a container format returns its result through SignOpts.SetBinPatch or SetPkcs7 (a patch against, or a blob next to, the original bytes), never a rewritten copy of the input; the frozen table lists the signers whose output is by nature a new document (pgp, cosign, appmanifest, pkcs); (R03b) the CFB allocator makeFreeSectors appends a sector id to its result only if the table entry at that index equals the free marker or the index lies beyond the old end of the table, and every writeSector / writeShortSector call on the writing side targets an allocator result or a sector listed in the MSAT / MSAT-list (the table's own sectors); (R03c) comdoc.DeleteFile frees sector chains only for the directory entries whose name matched and refuses anything that is not a stream, and AddFile deletes exactly the name it adds; (R03d) the ZIP manglers keep existing members by re-indexing: Directory.Mangle and JarDigest.insertSignature hand kept members to Directory.AddFile in directory order and never dump, reopen or re-create them; Directory.AddFile changes nothing of a member but its offset and drops the cached raw header only when the offset changed; (R03e) rewrites act on the metadata as read: DeleteFile frees an entry's chain before blanking the entry, zipslicer decides the presence of a data descriptor from the local header's flag bit 3, and binpatch's in-place path sets the file to exactly Offset+NewSize of the last patch (not a maximum). (R03f) a function that overwrites Directory.DirLoc with a provisional offset and returns the directory stores the original offset (a load taken before the overwrite) back on every path to a success return; (R03g) every uint8(len(x)) is covered by a comparison of that same byte length with a constant that fits, or x was re-sliced to such a constant (module-wide); (R03h) the length signdeb.Sign removes for an existing _gpg member, when computed from ar.Header.Size, goes through a rounding to even. (R03i) the loop of lib/fruit/xar that rewrites heap offsets in the table of contents cannot go round an entry for any reason other than that entry's offset being absent or unparsable. (R03h) the span removed for the old _gpg member is computed from ar.Header.Size rounded up to even, or - when it is measured from stream positions - made even somewhere in its derivation; (R03m) no map store in a function reachable from a signer's Sign / Transform / Fixup or a Transformer's Apply / GetReader goes into a map that may be a package-level variable of the module, directly or as the result of a helper (depth 2): what is added for one artifact does not turn up in the next; (R03l) every site of lib/comdoc that chooses between the two allocation tables uses the same cutoff predicate (C18 R18e), so a stream is freed in the table it lives in; (R03j) in signdeb.Sign the value handed to ar.NewReader is the readercounter itself, or the counter behind io.LimitReader / io.TeeReader / io.NopCloser, with nothing buffering in between; (R03k) ZIP local header name and extra are read from the local header (C17 R17r), so member sizes and the ranges removed when rewriting are those of the file. (R03n) the inline OpenPGP packet header written by MergeSignature uses the RFC 4880 length boundaries 192 and 8384 (C01 R01j), so that the merged document stays readable.",
			NotDecided:  "that every payload item of an output has exactly its input bytes (C12 decides that patches apply exactly, C17/C18 the container bookkeeping); well-formedness of the output for an independent reader; the refusal of inputs relic cannot rewrite safely in general (only the refusals named above).",
			Assumptions: []string{"a binary patch leaves every byte outside its regions untouched (decided separately by C12)"},
		},
		Run: runC03,
	})
}

// c03WholeOutput: signers whose result is a new document by nature.
var c03WholeOutput = map[string]string{
	"pgp":         "detached, inline or clear-signed OpenPGP output is a new document",
	"cosign":      "produces a signature payload for a registry, not a rewritten artifact",
	"appmanifest": "the signed manifest is the re-serialised XML document with the Signature element added",
	"pkcs":        "detached PKCS#7 over the input",
	"starman":     "detached signature blob",
}

func runC03(c *Ctx) {
	defer round7C03(c)
	c.Rule("R03a", "container signers return a patch or a detached blob, never a rewritten copy", 14)
	c.Rule("R03b", "the CFB allocator hands out only free or new sectors and the writers write only where it says", 6)
	c.Rule("R03c", "deleting a CFB stream frees only that stream's chain and refuses storages", 3)
	c.Rule("R03d", "ZIP manglers re-index kept members and never rewrite them", 5)
	c03Results(c)
	c03Allocator(c)
	c03Delete(c)
	c03Zip(c)
	c03ReadBeforeOverwrite(c)
	c03Round2(c)
}

func c03Results(c *Ctx) {
	p := c.P
	type ent struct {
		fn   *ssa.Function
		name string
	}
	var ents []ent
	for f, n := range p.registeredSignerFuncs("Sign") {
		ents = append(ents, ent{f, n})
	}
	sort.Slice(ents, func(i, j int) bool { return ents[i].name < ents[j].name })
	for _, e := range ents {
		c.Analysed(p.FName(e.fn))
		key := "signer " + e.name + " result kind"
		if why, ok := c03WholeOutput[e.name]; ok {
			c.PassTrivial("R03a", key, p.Pos(e.fn.Pos()), "exception: "+why)
			continue
		}
		// every success return hands back the result of SetBinPatch / SetPkcs7
		ok := true
		n := 0
		for _, r := range p.successReturns(e.fn) {
			n++
			call, idx := resultOf(retVal(r, 0))
			if call == nil || idx > 0 {
				// a tuple-returning call forwarded whole (return opts.SetBinPatch(p))
				if len(r.Results) > 0 {
					if ex, isEx := retVal(r, 0).(*ssa.Extract); isEx {
						call, _ = ex.Tuple.(*ssa.Call)
					}
				}
			}
			name := ""
			if call != nil {
				name = p.calleeName(call.Common())
			}
			if name != "(signers.SignOpts).SetBinPatch" && name != "(signers.SignOpts).SetPkcs7" {
				ok = false
			}
		}
		c.Check(ok && n > 0, "R03a", key, p.Pos(e.fn.Pos()), "SetBinPatch / SetPkcs7", "the Sign function of signer "+e.name+" returns something other than a binary patch or a PKCS#7 blob: the client would overwrite the artifact with whatever comes back instead of patching the signature in")
	}
	if len(ents) < 18 {
		c.Undecided("R03a", "signer registry", "-", fmt.Sprintf("only %d Sign registrations resolved", len(ents)))
	}
}

func c03Allocator(c *Ctx) {
	p := c.P
	mf := p.Func("lib/comdoc.(*ComDoc).makeFreeSectors")
	if mf == nil {
		c.Undecided("R03b", "makeFreeSectors", "-", "function not found")
		return
	}
	c.Analysed(p.FName(mf))
	// appends to the result
	n := 0
	for _, b := range mf.Blocks {
		for _, in := range b.Instrs {
			call, ok := in.(*ssa.Call)
			if !ok {
				continue
			}
			bi, ok := call.Call.Value.(*ssa.Builtin)
			if !ok || bi.Name() != "append" || !strings.HasSuffix(call.Type().String(), "comdoc.SecID") {
				continue
			}
			// only appends of a single converted index (freeList = append(freeList, SecID(i)))
			if len(call.Call.Args) != 2 {
				continue
			}
			if _, isSlice := call.Call.Args[1].(*ssa.Slice); !isSlice {
				continue
			}
			if strings.Contains(call.Call.Args[1].(*ssa.Slice).X.Type().String(), "[1]") == false {
				continue
			}
			n++
			key := fmt.Sprintf("%s hands out sector#%d", p.FName(mf), n)
			// (a) behind `entry == SecIDFree`, or (b) index starts at the old table length
			free := Guard{Name: "table entry == free", Match: func(f Fact) bool {
				bo, ok := f.V.(*ssa.BinOp)
				if !ok {
					return false
				}
				isFree := isIntConst(stripConvAll(bo.X), -1) || isIntConst(stripConvAll(bo.Y), -1)
				return isFree && ((bo.Op == token.EQL && f.Kind == IsTrue) || (bo.Op == token.NEQ && f.Kind == IsFalse))
			}}
			missing, _ := p.unguardedFromEntry(mf, call, free)
			okFree := len(missing) == 0
			okNew := false
			if !okFree {
				// the index variable of the enclosing loop starts at len(sat)
				for _, bb := range mf.Blocks {
					for _, x := range bb.Instrs {
						ph, isPhi := x.(*ssa.Phi)
						if !isPhi || !reach(mf, []*ssa.BasicBlock{bb}, nil, nil)[b.Index] {
							continue
						}
						for _, e := range ph.Edges {
							if lc, isCall := e.(*ssa.Call); isCall {
								if lb, isB := lc.Call.Value.(*ssa.Builtin); isB && lb.Name() == "len" {
									// and the appended value converts this phi
									if dependsOn(call.Call.Args[1], func(v ssa.Value) bool { return v == ssa.Value(ph) }) {
										okNew = true
									}
								}
							}
						}
					}
				}
			}
			c.Check(okFree || okNew, "R03b", key, p.Pos(call.Pos()), map[bool]string{true: "entry is free", false: "index beyond the old table"}[okFree], "makeFreeSectors adds a sector to its result that is neither marked free in the allocation table nor beyond the table's old end: the next stream is written over a sector that belongs to existing content")
		}
	}
	if n < 2 {
		c.Undecided("R03b", "makeFreeSectors appends", p.Pos(mf.Pos()), fmt.Sprintf("%d appends to the free list recognised, 2 expected", n))
	}
	// writers
	var roots []*ssa.Function
	for _, s := range c18WriterRoots {
		if f := p.Func(s); f != nil {
			roots = append(roots, f)
		}
	}
	nw := 0
	for fn := range p.moduleReach(roots, nil) {
		if pk := pkgOf(fn); pk == nil || p.Rel(pk.Path()) != "lib/comdoc" {
			continue
		}
		k := 0
		for _, ci := range p.callsIn(fn, "(*lib/comdoc.ComDoc).writeSector", "(*lib/comdoc.ComDoc).writeShortSector") {
			nw++
			k++
			key := fmt.Sprintf("%s write#%d", p.FName(fn), k)
			c.Analysed(p.FName(fn))
			target := ci.Common().Args[1]
			ok := true
			src := ""
			for _, lf := range phiLeaves(target, nil, map[*ssa.Phi]bool{}) {
				v := stripConvAll(lf.V)
				switch {
				case c18FromAllocator(p, v):
					src = "allocator result"
				case c03TableSector(p, v):
					src = "sector of the table itself (MSAT / MSAT list)"
				default:
					ok = false
					src = describeVal(p, v)
				}
			}
			c.Check(ok, "R03b", key, p.Pos(ci.Pos()), src, "a sector write targets "+src+", which is neither a sector the allocator handed out nor one of the allocation table's own sectors: existing content can be overwritten")
		}
	}
	if nw < 4 {
		c.Undecided("R03b", "sector writes", "-", fmt.Sprintf("only %d writeSector/writeShortSector calls found on the writing side (5 confirmed by reading)", nw))
	}
}

// c03TableSector: element of ComDoc.MSAT or ComDoc.msatList (range value or indexed load).
func c03TableSector(p *Prog, v ssa.Value) bool {
	if l, ok := v.(*ssa.UnOp); ok && l.Op == token.MUL {
		if ia, ok := l.X.(*ssa.IndexAddr); ok {
			k := p.memKey(ia.X)
			return k == "f:lib/comdoc.ComDoc.MSAT" || k == "f:lib/comdoc.ComDoc.msatList"
		}
	}
	return false
}

// c03RuleDelete: the rule id c03Delete reports under (R03c; C01 shares it as R01m).
var c03RuleDelete = "R03c"

func c03Delete(c *Ctx) {
	p := c.P
	df := p.Func("lib/comdoc.(*ComDoc).DeleteFile")
	af := p.Func("lib/comdoc.(*ComDoc).AddFile")
	if df == nil || af == nil {
		c.Undecided(c03RuleDelete, "DeleteFile/AddFile", "-", "function not found")
		return
	}
	c.Analysed(p.FName(df))
	c.Analysed(p.FName(af))
	frees := p.callsIn(df, "lib/comdoc.freeSectors")
	match := p.callGuard("EqualFold(name)==true", []string{"strings.EqualFold"}, -1, IsTrue, nil)
	isStream := Guard{Name: "item.Type == DirStream", Match: func(f Fact) bool {
		bo, ok := f.V.(*ssa.BinOp)
		if !ok {
			return false
		}
		_, fld, _ := p.fieldLoad(stripConvAll(bo.X))
		k2 := isIntConst(stripConvAll(bo.Y), 2)
		return fld == "Type" && k2 && ((bo.Op == token.EQL && f.Kind == IsTrue) || (bo.Op == token.NEQ && f.Kind == IsFalse))
	}}
	ok := len(frees) >= 1 // one call per table, or one call on the table that was chosen (C18 R18e judges the choice)
	var path []string
	for _, ci := range frees {
		if missing, w := p.unguardedFromEntry(df, ci, match, isStream); len(missing) > 0 {
			ok = false
			path = w
		}
		// the chain freed starts at the matched item's NextSector
		if tn, fld, _ := p.fieldLoad(stripConvAll(ci.Common().Args[1])); !strings.HasSuffix(tn, "RawDirEnt") || fld != "NextSector" {
			ok = false
		}
	}
	c.Check(ok, c03RuleDelete, "DeleteFile frees only the matched stream's chain", p.Pos(df.Pos()), "behind name match and stream type; chain head is item.NextSector", "DeleteFile can free a sector chain of an entry whose name did not match, or of a storage: content of another stream becomes free space and is overwritten by the next signature", path...)
	// the blanking of the dirent is behind the same guards
	okBlank := false
	for _, b := range df.Blocks {
		for _, in := range b.Instrs {
			st, isSt := in.(*ssa.Store)
			if !isSt || !strings.HasSuffix(st.Val.Type().String(), "comdoc.DirEnt") {
				continue
			}
			if missing, _ := p.unguardedFromEntry(df, st, match, isStream); len(missing) == 0 {
				okBlank = true
			} else {
				okBlank = false
			}
		}
	}
	c.Check(okBlank, c03RuleDelete, "DeleteFile blanks only the matched entry", p.Pos(df.Pos()), "", "a directory entry can be blanked without its name having matched")
	// AddFile deletes the name it adds
	dels := p.callsIn(af, "(*lib/comdoc.ComDoc).DeleteFile")
	news := p.callsIn(af, "(*lib/comdoc.ComDoc).newDirEnt")
	okSame := len(dels) == 1 && len(news) == 1 && dels[0].Common().Args[1] == news[0].Common().Args[1]
	c.Check(okSame, c03RuleDelete, "AddFile replaces exactly the name it adds", p.Pos(af.Pos()), "", "AddFile deletes a different name than the one it creates")
}

func c03Zip(c *Ctx) {
	p := c.P
	writers := []string{"(*lib/zipslicer.File).Dump", "(*lib/zipslicer.Directory).NewFile", "(*lib/zipslicer.File).Open", "(*lib/zipslicer.File).OpenAndTeeRaw"}
	for _, spec := range []string{"lib/zipslicer.(*Directory).Mangle", "lib/signjar.(*JarDigest).insertSignature"} {
		fn := p.Func(spec)
		if fn == nil {
			c.Undecided("R03d", spec, "-", "function not found")
			continue
		}
		c.Analysed(p.FName(fn))
		adds := p.callsIn(fn, "(*lib/zipslicer.Directory).AddFile")
		// calls that write member data count only inside the member loop (new signature
		// members are created before it)
		var rew []ssa.CallInstruction
		for _, ci := range p.callsIn(fn, writers...) {
			if inCycleWith(fn, ci.Block(), nil) {
				rew = append(rew, ci)
			}
		}
		ok := len(adds) == 1 && len(rew) == 0 && inCycleWith(fn, adds[0].Block(), nil)
		c.Check(ok, "R03d", p.FName(fn)+" re-indexes kept members", p.Pos(fn.Pos()), "Directory.AddFile in the member loop; no dump/re-create", fmt.Sprintf("the mangler no longer keeps existing members by handing them to Directory.AddFile (%d calls) or rewrites them (%d calls of Dump/NewFile/Open): kept members are re-written instead of left in place", len(adds), len(rew)))
		// order: no sorting of the member list
		srt := p.callsIn(fn, "sort.Slice", "sort.SliceStable", "sort.Sort", "sort.Stable")
		c.Check(len(srt) == 0, "R03d", p.FName(fn)+" keeps member order", p.Pos(fn.Pos()), "", "the member list is sorted while mangling: members change order")
	}
	af := p.Func("lib/zipslicer.(*Directory).AddFile")
	if af == nil {
		c.Undecided("R03d", "Directory.AddFile", "-", "function not found")
		return
	}
	c.Analysed(p.FName(af))
	stores := map[string]int{}
	rawNilGuarded := false
	for _, b := range af.Blocks {
		for _, in := range b.Instrs {
			st, ok := in.(*ssa.Store)
			if !ok {
				continue
			}
			tn, fld, _ := p.fieldAddr(st.Addr)
			if tn != "lib/zipslicer.File" {
				continue
			}
			stores[fld]++
			if fld == "raw" && isNilConst(st.Val) {
				g := Guard{Name: "f.Offset != new offset", Match: func(f Fact) bool {
					bo, ok := f.V.(*ssa.BinOp)
					if !ok {
						return false
					}
					_, f1, _ := p.fieldLoad(stripConvAll(bo.X))
					return f1 == "Offset" && ((bo.Op == token.NEQ && f.Kind == IsTrue) || (bo.Op == token.EQL && f.Kind == IsFalse))
				}}
				if missing, _ := p.unguardedFromEntry(af, st, g); len(missing) == 0 {
					rawNilGuarded = true
				}
			}
		}
	}
	only := true
	for f := range stores {
		if f != "Offset" && f != "raw" {
			only = false
		}
	}
	c.Check(only && stores["Offset"] == 1 && rawNilGuarded, "R03d", "Directory.AddFile changes only the member's offset", p.Pos(af.Pos()), fmt.Sprint(stores), fmt.Sprintf("Directory.AddFile writes member fields %v (only Offset, and raw=nil when the offset changed, are expected): a kept member's recorded sizes, CRC or name change although its bytes were not touched", stores))
}

// ------------------------------------------------------------------------------ R03e

// c03ReadBeforeOverwrite: rewriting acts on metadata as it was read from the input.
func c03ReadBeforeOverwrite(c *Ctx) {
	p := c.P
	c.Rule("R03e", "rewrites act on the metadata as read: an entry is blanked after its chain was freed, descriptor presence comes from the local header, the in-place result has exactly the prescribed length", 3)
	// (1) DeleteFile: no freeSectors call (which reads item.StreamSize / item.NextSector) after the
	// entry was blanked, within one iteration
	if df := p.Func("lib/comdoc.(*ComDoc).DeleteFile"); df == nil {
		c.Undecided("R03e", "DeleteFile", "-", "function not found")
	} else {
		var blanks []*ssa.Store
		for _, b := range df.Blocks {
			for _, in := range b.Instrs {
				if st, ok := in.(*ssa.Store); ok && strings.HasSuffix(st.Val.Type().String(), "comdoc.DirEnt") {
					blanks = append(blanks, st)
				}
			}
		}
		frees := p.callsIn(df, "lib/comdoc.freeSectors")
		ok := len(blanks) > 0 && len(frees) >= 1
		for _, blank := range blanks {
			if !ok {
				break
			}
			// one iteration: do not re-enter the block that computes the entry's address
			del := map[edge]bool{}
			if ia, isIA := blank.Addr.(*ssa.IndexAddr); isIA {
				db := ia.Block()
				for _, pb := range db.Preds {
					for si, s := range pb.Succs {
						if s == db {
							del[edge{pb.Index, si}] = true
						}
					}
				}
			}
			for _, f := range frees {
				if reachableAfter(df, blank, f, del, nil) {
					ok = false
				}
			}
			// and the values handed to freeSectors are not loaded after the blanking either
			for _, f := range frees {
				if l, isL := stripConvAll(f.Common().Args[1]).(*ssa.UnOp); isL {
					if reachableAfter(df, blank, l, del, nil) {
						ok = false
					}
				}
			}
		}
		c.Check(ok, "R03e", "DeleteFile frees the chain before blanking the entry", p.Pos(df.Pos()), "", "the directory entry is blanked before its StreamSize / NextSector are read for freeing: the chain that gets freed starts at sector 0 of the short-sector table instead of at the deleted stream, so re-signing frees (and then overwrites) sectors of an unrelated stream")
	}
	// (2) zipslicer: descriptor presence is tested on the LOCAL header flags
	n := 0
	okAll := true
	where := ""
	for _, fn := range p.pkgFuncs("lib/zipslicer") {
		for _, b := range fn.Blocks {
			for _, in := range b.Instrs {
				bo, ok := in.(*ssa.BinOp)
				if !ok || bo.Op != token.AND || !isIntConst(bo.Y, 8) {
					continue
				}
				tn, fld, _ := p.fieldLoad(stripConvAll(bo.X))
				if fld != "Flags" {
					continue
				}
				n++
				if tn != "lib/zipslicer.zipLocalHeader" {
					okAll = false
					where = p.Pos(bo.Pos()) + " (" + tn + ")"
				}
			}
		}
	}
	c.Check(okAll && n >= 2, "R03e", "data-descriptor presence is read from the local header", "-", fmt.Sprintf("%d tests of flag bit 3, all on zipLocalHeader.Flags", n), "flag bit 3 (data descriptor follows) is tested on "+where+" instead of the local file header: for a member whose two headers disagree the member's extent is misjudged by the size of the descriptor, every following offset shifts and the rewritten archive is unreadable")
	// (3) binpatch in-place: the final length is assigned, not maximised (the analysis of C08 R08g, which
	// follows the size through the steps of Apply that were given names)
	{
		fs := truncateNotMax(p)
		ok, detail := len(fs) > 0, ""
		for _, f := range fs {
			if !f.OK {
				ok = false
				detail = f.Detail
			}
		}
		pos := "-"
		if ap := p.Func("lib/binpatch.(*PatchSet).Apply"); ap != nil {
			pos = p.Pos(ap.Pos())
		}
		c.Check(ok, "R03e", "in-place patching sets the file to exactly the prescribed length", pos, "", "the final length of the in-place result is only taken over when it compares larger: a trailing replacement that is shorter than what it replaces leaves the old tail in the file, while the rewrite path produces the right length ("+short(detail, 160)+")")
	}
}
