package main

// E1 — path guards on the go/ssa control-flow graph, plus shared SSA helpers.

import (
	"fmt"
	"go/constant"
	"go/token"
	"go/types"
	"sort"
	"strings"

	"golang.org/x/tools/go/ssa"
)

// ---------------------------------------------------------------------------------
// callee resolution

// calleeObj returns the types.Func a call resolves to: the static callee's object, or
// the interface method for invoke-mode calls; nil for calls of function values.
func calleeObj(c *ssa.CallCommon) *types.Func {
	if c.IsInvoke() {
		return c.Method
	}
	if f := c.StaticCallee(); f != nil {
		if obj, ok := f.Object().(*types.Func); ok {
			return obj
		}
		// instantiated generic / bound method wrapper
		if f.Origin() != nil {
			if obj, ok := f.Origin().Object().(*types.Func); ok {
				return obj
			}
		}
	}
	return nil
}

// calleeName is the module-relative full name of the callee ("" if unresolved).
func (p *Prog) calleeName(c *ssa.CallCommon) string {
	if obj := calleeObj(c); obj != nil {
		return p.ObjName(obj)
	}
	if f := c.StaticCallee(); f != nil {
		return p.Rel(f.String())
	}
	return ""
}

func callOf(instr ssa.Instruction) *ssa.CallCommon {
	if ci, ok := instr.(ssa.CallInstruction); ok {
		return ci.Common()
	}
	return nil
}

// callsIn lists every call instruction (call, go, defer) in fn whose callee name
// matches one of names.
func (p *Prog) callsIn(fn *ssa.Function, names ...string) []ssa.CallInstruction {
	var out []ssa.CallInstruction
	for _, b := range fn.Blocks {
		for _, in := range b.Instrs {
			ci, ok := in.(ssa.CallInstruction)
			if !ok {
				continue
			}
			n := p.calleeName(ci.Common())
			hit := false
			for _, want := range names {
				if n == want {
					hit = true
				}
			}
			// a function chosen into a variable and then called (`f := A; if c { f = B }; f(x)`)
			// is a call of each of the functions it may hold
			if !hit && ci.Common().StaticCallee() == nil && !ci.Common().IsInvoke() {
				for _, alt := range p.mayCall(ci.Common()) {
					for _, want := range names {
						if alt == want {
							hit = true
						}
					}
				}
			}
			if hit {
				out = append(out, ci)
			}
		}
	}
	return out
}

// mayCall: the names of the functions a call through a merged function value may reach, when every
// value merged into it is a function of the program (empty otherwise).
func (p *Prog) mayCall(cc *ssa.CallCommon) []string {
	ph, ok := cc.Value.(*ssa.Phi)
	if !ok {
		return nil
	}
	var out []string
	for _, lf := range phiLeaves(ph, nil, map[*ssa.Phi]bool{}) {
		f, ok := lf.V.(*ssa.Function)
		if !ok {
			return nil
		}
		out = append(out, p.FName(f))
	}
	return out
}

// callsOf lists every call instruction of fn in block order.
func callsOf(fn *ssa.Function) []ssa.CallInstruction {
	var out []ssa.CallInstruction
	for _, b := range fn.Blocks {
		for _, in := range b.Instrs {
			if ci, ok := in.(ssa.CallInstruction); ok {
				out = append(out, ci)
			}
		}
	}
	return out
}

// withClosures returns fn and every function literal nested in it.
func withClosures(fn *ssa.Function) []*ssa.Function {
	out := []*ssa.Function{fn}
	for _, a := range fn.AnonFuncs {
		out = append(out, withClosures(a)...)
	}
	return out
}

// ---------------------------------------------------------------------------------
// facts carried by the two edges of an If

type FactKind int

const (
	IsTrue FactKind = iota
	IsFalse
	IsNil
	NonNil
)

func (k FactKind) String() string {
	return [...]string{"==true", "==false", "==nil", "!=nil"}[k]
}

type Fact struct {
	V    ssa.Value
	Kind FactKind
}

func negate(k FactKind) FactKind {
	switch k {
	case IsTrue:
		return IsFalse
	case IsFalse:
		return IsTrue
	case IsNil:
		return NonNil
	}
	return IsNil
}

func isNilConst(v ssa.Value) bool {
	c, ok := v.(*ssa.Const)
	return ok && c.IsNil()
}

func boolConst(v ssa.Value) (bool, bool) {
	c, ok := v.(*ssa.Const)
	if !ok || c.Value == nil || c.Value.Kind() != constant.Bool {
		return false, false
	}
	return constant.BoolVal(c.Value), true
}

// stripConv removes representation-preserving wrappers.
func stripConv(v ssa.Value) ssa.Value {
	for {
		switch x := v.(type) {
		case *ssa.ChangeType:
			v = x.X
		case *ssa.ChangeInterface:
			v = x.X
		case *ssa.MakeInterface:
			v = x.X
		default:
			return v
		}
	}
}

// factsOf decomposes a boolean condition into the atomic facts that hold when the
// condition evaluates to `truth`. Conjunctions appear as separate blocks in go/ssa, so
// an atomic decomposition is complete for `if` conditions; a boolean that was
// materialised (x := a && b) shows up as a Phi and is followed when every incoming
// edge is a constant or a single tested value.
func factsOf(cond ssa.Value, truth bool) []Fact {
	return factsOfD(cond, truth, 0)
}

func factsOfD(cond ssa.Value, truth bool, depth int) []Fact {
	if depth > 6 {
		return []Fact{{cond, kindBool(truth)}}
	}
	cond = stripConv(cond)
	switch x := cond.(type) {
	case *ssa.UnOp:
		if x.Op == token.NOT {
			return factsOfD(x.X, !truth, depth+1)
		}
		if x.Op == token.MUL {
			// load of a local boolean/err variable that was spilled to an Alloc
			if v := singleStoreValue(x); v != nil {
				return append(factsOfD(v, truth, depth+1), Fact{cond, kindBool(truth)})
			}
		}
	case *ssa.BinOp:
		if x.Op == token.EQL || x.Op == token.NEQ {
			eq := x.Op == token.EQL
			if !truth {
				eq = !eq
			}
			var other ssa.Value
			switch {
			case isNilConst(x.Y):
				other = x.X
			case isNilConst(x.X):
				other = x.Y
			}
			if other != nil {
				k := NonNil
				if eq {
					k = IsNil
				}
				fs := []Fact{{stripConv(other), k}, {other, k}}
				if l, ok := stripConv(other).(*ssa.UnOp); ok && l.Op == token.MUL {
					if v := singleStoreValue(l); v != nil {
						fs = append(fs, Fact{stripConv(v), k})
					}
				}
				return fs
			}
			if b, ok := boolConst(x.Y); ok {
				return factsOfD(x.X, eq == b, depth+1)
			}
			if b, ok := boolConst(x.X); ok {
				return factsOfD(x.Y, eq == b, depth+1)
			}
		}
	case *ssa.Phi:
		// x := true/false constants merged with one tested value
		var fs []Fact
		decided := true
		for _, e := range x.Edges {
			if b, ok := boolConst(e); ok {
				if b == truth {
					// this constant edge makes the condition `truth` with no information
					decided = false
				}
				continue
			}
			fs = append(fs, factsOfD(e, truth, depth+1)...)
		}
		if decided {
			return append(fs, Fact{cond, kindBool(truth)})
		}
	}
	return []Fact{{cond, kindBool(truth)}}
}

func kindBool(b bool) FactKind {
	if b {
		return IsTrue
	}
	return IsFalse
}

// singleStoreValue: for a load `*a` of an Alloc that has exactly one Store in the
// function (a variable captured by a closure or address-taken but assigned once),
// return the stored value.
func singleStoreValue(load *ssa.UnOp) ssa.Value {
	a, ok := load.X.(*ssa.Alloc)
	if !ok {
		return nil
	}
	var stored ssa.Value
	n := 0
	for _, r := range *a.Referrers() {
		if st, ok := r.(*ssa.Store); ok && st.Addr == a {
			stored = st.Val
			n++
		}
	}
	if n == 1 {
		return stored
	}
	return nil
}

// resultOf reports whether v is result #idx of call (idx<0: the call's single result).
func resultOf(v ssa.Value) (ssa.CallInstruction, int) {
	v = stripConv(v)
	switch x := v.(type) {
	case *ssa.Call:
		return x, -1
	case *ssa.Extract:
		if c, ok := x.Tuple.(*ssa.Call); ok {
			return c, x.Index
		}
	}
	return nil, 0
}

// ---------------------------------------------------------------------------------
// guards

// Guard describes the edges that count as "passed the check".
type Guard struct {
	Name string
	// Match decides whether a fact on an If edge is the required outcome of the guard.
	Match func(f Fact) bool
}

type edge struct{ from, succ int } // block index, successor position (0=true,1=false)

// passEdges returns the If edges of fn on which some fact matches the guard.
func passEdges(fn *ssa.Function, g Guard) map[edge]bool {
	out := map[edge]bool{}
	for _, b := range fn.Blocks {
		if len(b.Instrs) == 0 {
			continue
		}
		ifi, ok := b.Instrs[len(b.Instrs)-1].(*ssa.If)
		if !ok {
			continue
		}
		for si, truth := range []bool{true, false} {
			for _, f := range factsOf(ifi.Cond, truth) {
				if g.Match(f) {
					out[edge{b.Index, si}] = true
				}
			}
		}
	}
	// a named boolean: `ok := a || b; if ok {` is a phi whose edges are the constant true (entered over the
	// edge on which a held) and the value b. The true edge of the test passes the guard when every way of
	// the phi being true does: each true constant comes in over a pass edge, each other value establishes the
	// guard by being true.
	for round := 0; round < 2; round++ {
		for _, b := range fn.Blocks {
			if len(b.Instrs) == 0 {
				continue
			}
			ifi, ok := b.Instrs[len(b.Instrs)-1].(*ssa.If)
			if !ok || out[edge{b.Index, 0}] {
				continue
			}
			ph, ok := ifi.Cond.(*ssa.Phi)
			if !ok || !isBool(ph.Type()) {
				continue
			}
			all := len(ph.Edges) > 0
			for i, e := range ph.Edges {
				if k, isK := boolConst(e); isK {
					if !k {
						continue
					}
					pb := ph.Block().Preds[i]
					passes := false
					for si, s := range pb.Succs {
						if s == ph.Block() && out[edge{pb.Index, si}] {
							passes = true
						}
					}
					if !passes {
						all = false
					}
					continue
				}
				est := false
				for _, f := range factsOf(e, true) {
					if g.Match(f) {
						est = true
					}
				}
				if !est {
					all = false
				}
			}
			if all {
				out[edge{b.Index, 0}] = true
			}
		}
	}
	return out
}

// callGuard: the required outcome `want` of result #idx (idx<0: single result) of a
// call whose callee name is one of names. extra (optional) further constrains the call.
func (p *Prog) callGuard(label string, names []string, idx int, want FactKind, extra func(ssa.CallInstruction) bool) Guard {
	set := map[string]bool{}
	for _, n := range names {
		set[n] = true
	}
	return Guard{Name: label, Match: func(f Fact) bool {
		if f.Kind != want {
			return false
		}
		call, i := resultOf(f.V)
		if call == nil {
			return false
		}
		if idx >= 0 && i != idx {
			return false
		}
		if idx < 0 && i >= 0 {
			return false
		}
		if !set[p.calleeName(call.Common())] {
			return false
		}
		return extra == nil || extra(call)
	}}
}

// reach computes the set of blocks reachable from the given start blocks when the
// deleted edges are removed. pred (optional) receives the BFS tree for witness paths.
//
// The search is path-sensitive in exactly one respect: a boolean Phi whose incoming
// edges include constants and which is used as an If condition (the shape go/ssa gives
// to `retry := false; if c { retry = true }; ...; if retry {`) remembers which edge it
// was entered through, so that the If only follows the consistent successor. This
// removes the commonest class of infeasible paths without losing any feasible one.
func reach(fn *ssa.Function, starts []*ssa.BasicBlock, deleted map[edge]bool, pred map[int]int) map[int]bool {
	seen, _ := reachVia(fn, starts, deleted, pred, nil, nil, nil)
	return seen
}

// reachVia is reach in two legs with the flag memory carried across: the first leg (deleted,
// pred) runs from starts; whatever leaves block via continues as the second leg (deleted2,
// pred2). seen2 holds the blocks entered on the second leg - via itself only if it is entered
// again. With via == nil it is plain reach.
func reachVia(fn *ssa.Function, starts []*ssa.BasicBlock, deleted map[edge]bool, pred map[int]int, via *ssa.BasicBlock, deleted2 map[edge]bool, pred2 map[int]int) (map[int]bool, map[int]bool) {
	tracked := trackedPhis(fn)
	type state struct {
		b   int
		env string
		leg int
	}
	seen := map[int]bool{}
	seen2 := map[int]bool{}
	seenSt := map[state]bool{}
	type item struct {
		b   *ssa.BasicBlock
		env map[*ssa.Phi]int8
		leg int
	}
	encode := func(env map[*ssa.Phi]int8) string {
		if len(env) == 0 {
			return ""
		}
		bs := make([]byte, len(tracked.order))
		for i, ph := range tracked.order {
			bs[i] = byte('0' + env[ph])
		}
		return string(bs)
	}
	var q []item
	for _, s := range starts {
		st := state{s.Index, "", 0}
		if !seenSt[st] {
			seenSt[st] = true
			if !seen[s.Index] {
				seen[s.Index] = true
				if pred != nil {
					pred[s.Index] = -1
				}
			}
			q = append(q, item{s, nil, 0})
		}
	}
	for len(q) > 0 {
		it := q[0]
		q = q[1:]
		b := it.b
		leg := it.leg
		if via != nil && b == via {
			leg = 1
		}
		for si, s := range b.Succs {
			if leg == 0 && deleted[edge{b.Index, si}] {
				continue
			}
			if leg == 1 && deleted2[edge{b.Index, si}] {
				continue
			}
			// is this successor consistent with a tracked phi condition?
			if len(b.Succs) == 2 {
				if ifi, ok := b.Instrs[len(b.Instrs)-1].(*ssa.If); ok {
					if ph, neg := tracked.condPhi(ifi.Cond); ph != nil {
						if v := it.env[ph]; v != 0 {
							val := v == 1
							if neg {
								val = !val
							}
							if (si == 0) != val {
								continue
							}
						}
					}
				}
			}
			env := it.env
			if phis := tracked.inBlock[s.Index]; len(phis) > 0 {
				env = map[*ssa.Phi]int8{}
				for k, v := range it.env {
					env[k] = v
				}
				// which predecessor position is b in s?
				for pi, pb := range s.Preds {
					if pb != b {
						continue
					}
					for _, ph := range phis {
						if fl := tracked.edgeFlag(ph, ph.Edges[pi]); fl != 0 {
							env[ph] = fl
						} else if src, ok := ph.Edges[pi].(*ssa.Phi); ok && tracked.set[src] && tracked.sameKind(ph, src) {
							env[ph] = it.env[src]
						} else {
							env[ph] = 0
						}
					}
					break
				}
			}
			st := state{s.Index, encode(env), leg}
			if seenSt[st] {
				continue
			}
			seenSt[st] = true
			if leg == 0 {
				if !seen[s.Index] {
					seen[s.Index] = true
					if pred != nil {
						pred[s.Index] = b.Index
					}
				}
			} else if !seen2[s.Index] {
				seen2[s.Index] = true
				if pred2 != nil {
					pred2[s.Index] = b.Index
				}
			}
			q = append(q, item{s, env, leg})
		}
	}
	return seen, seen2
}

type phiTrack struct {
	intK    map[*ssa.Phi]int64 // integer flag phis: the one constant they are compared with
	set     map[*ssa.Phi]bool
	order   []*ssa.Phi
	inBlock map[int][]*ssa.Phi
}

var phiTrackCache = map[*ssa.Function]*phiTrack{}

func (t *phiTrack) condPhi(cond ssa.Value) (*ssa.Phi, bool) {
	neg := false
	for {
		if u, ok := cond.(*ssa.UnOp); ok && u.Op == token.NOT {
			neg = !neg
			cond = u.X
			continue
		}
		break
	}
	if ph, ok := cond.(*ssa.Phi); ok && t.set[ph] {
		return ph, neg
	}
	// integer flag: `v == K` / `v != K` where v is a tracked integer phi with comparison constant K
	if bo, ok := cond.(*ssa.BinOp); ok && (bo.Op == token.EQL || bo.Op == token.NEQ) {
		for _, pr := range [][2]ssa.Value{{bo.X, bo.Y}, {bo.Y, bo.X}} {
			ph, ok := pr[0].(*ssa.Phi)
			if !ok || !t.set[ph] {
				continue
			}
			if k, ok := constInt(pr[1]); ok {
				if tk, has := t.intK[ph]; has && tk == k {
					if bo.Op == token.NEQ {
						neg = !neg
					}
					return ph, neg
				}
			}
		}
	}
	return nil, false
}

// edgeFlag: the tracked value of phi ph when entered through an edge carrying e
// (1 = true / equal to the comparison constant, 2 = false / a different constant, 0 = unknown).
func (t *phiTrack) edgeFlag(ph *ssa.Phi, e ssa.Value) int8 {
	if k, isInt := t.intK[ph]; isInt {
		if c, ok := constInt(e); ok {
			if c == k {
				return 1
			}
			return 2
		}
		return 0
	}
	if cb, ok := boolConst(e); ok {
		if cb {
			return 1
		}
		return 2
	}
	return 0
}

// sameKind: the flag of src can be copied to ph (both boolean, or both integer flags
// compared with the same constant).
func (t *phiTrack) sameKind(ph, src *ssa.Phi) bool {
	k1, i1 := t.intK[ph]
	k2, i2 := t.intK[src]
	return i1 == i2 && (!i1 || k1 == k2)
}

func trackedPhis(fn *ssa.Function) *phiTrack {
	if t, ok := phiTrackCache[fn]; ok {
		return t
	}
	t := &phiTrack{set: map[*ssa.Phi]bool{}, inBlock: map[int][]*ssa.Phi{}, intK: map[*ssa.Phi]int64{}}
	for _, b := range fn.Blocks {
		for _, in := range b.Instrs {
			ph, ok := in.(*ssa.Phi)
			if !ok {
				break
			}
			if !isBool(ph.Type()) {
				// an integer variable used as a flag: some edge is a constant and every
				// ==/!= comparison of the phi is against one and the same constant
				if bt, ok := ph.Type().Underlying().(*types.Basic); !ok || bt.Info()&types.IsInteger == 0 {
					continue
				}
				hasConst := false
				for _, e := range ph.Edges {
					if _, ok := constInt(e); ok {
						hasConst = true
					}
				}
				var k int64
				nk := 0
				okK := true
				for _, r := range *ph.Referrers() {
					bo, ok := r.(*ssa.BinOp)
					if !ok || (bo.Op != token.EQL && bo.Op != token.NEQ) {
						continue
					}
					other := bo.Y
					if other == ssa.Value(ph) {
						other = bo.X
					}
					c, ok := constInt(other)
					if !ok {
						continue
					}
					if nk > 0 && c != k {
						okK = false
					}
					k = c
					nk++
				}
				if hasConst && nk > 0 && okK {
					t.set[ph] = true
					t.intK[ph] = k
					t.order = append(t.order, ph)
					t.inBlock[b.Index] = append(t.inBlock[b.Index], ph)
				}
				continue
			}
			hasConst := false
			for _, e := range ph.Edges {
				if _, ok := boolConst(e); ok {
					hasConst = true
				}
			}
			if !hasConst {
				continue
			}
			t.set[ph] = true
			t.order = append(t.order, ph)
			t.inBlock[b.Index] = append(t.inBlock[b.Index], ph)
		}
	}
	phiTrackCache[fn] = t
	return t
}

// succsFrom returns the successors of b that survive deletion (for source-relative
// reachability starting *after* an instruction in b).
func succsFrom(b *ssa.BasicBlock, deleted map[edge]bool) []*ssa.BasicBlock {
	var out []*ssa.BasicBlock
	for si, s := range b.Succs {
		if !deleted[edge{b.Index, si}] {
			out = append(out, s)
		}
	}
	return out
}

func instrIndex(in ssa.Instruction) int {
	for i, x := range in.Block().Instrs {
		if x == in {
			return i
		}
	}
	return -1
}

// blockLine: a printable location for a block (first instruction with a position).
func (p *Prog) blockLine(b *ssa.BasicBlock) string {
	for _, in := range b.Instrs {
		if in.Pos().IsValid() {
			return fmt.Sprintf("b%d(%s) %s", b.Index, b.Comment, p.Pos(in.Pos()))
		}
	}
	return fmt.Sprintf("b%d(%s)", b.Index, b.Comment)
}

func (p *Prog) witness(fn *ssa.Function, pred map[int]int, to int) []string {
	var idx []int
	for cur := to; cur >= 0; {
		idx = append(idx, cur)
		nx, ok := pred[cur]
		if !ok {
			break
		}
		cur = nx
	}
	var out []string
	for i := len(idx) - 1; i >= 0; i-- {
		out = append(out, p.blockLine(fn.Blocks[idx[i]]))
	}
	return out
}

// unguardedFromEntry: is the sink instruction reachable from fn's entry when all pass
// edges of all guards are deleted, one guard at a time? Returns the names of guards that
// do NOT protect the sink, with a witness path for the first.
func (p *Prog) unguardedFromEntry(fn *ssa.Function, sink ssa.Instruction, guards ...Guard) (missing []string, path []string) {
	for _, g := range guards {
		del := passEdges(fn, g)
		pred := map[int]int{}
		seen := reach(fn, []*ssa.BasicBlock{fn.Blocks[0]}, del, pred)
		if seen[sink.Block().Index] {
			missing = append(missing, g.Name)
			if path == nil {
				path = p.witness(fn, pred, sink.Block().Index)
			}
		}
	}
	return
}

// reachAfter: blocks reachable from the point just after `src` (its own block counts
// only if re-entered through a cycle), with edges deleted.
func reachAfter(fn *ssa.Function, src ssa.Instruction, deleted map[edge]bool, pred map[int]int) map[int]bool {
	return reach(fn, succsFrom(src.Block(), deleted), deleted, pred)
}

// reachableAfter: can `sink` execute after `src` without crossing a deleted edge?
func reachableAfter(fn *ssa.Function, src, sink ssa.Instruction, deleted map[edge]bool, pred map[int]int) bool {
	if src.Block() == sink.Block() && instrIndex(sink) > instrIndex(src) {
		return true
	}
	return reachAfter(fn, src, deleted, pred)[sink.Block().Index]
}

// ---------------------------------------------------------------------------------
// returns and errors

var errorType = types.Universe.Lookup("error").Type()

func isErrorType(t types.Type) bool { return types.Identical(t, errorType) }

// errResultIndex returns the index of the last result of fn if it is `error`, else -1.
func errResultIndex(sig *types.Signature) int {
	n := sig.Results().Len()
	if n == 0 {
		return -1
	}
	if isErrorType(sig.Results().At(n - 1).Type()) {
		return n - 1
	}
	return -1
}

// mayBeNil: can the value be a nil error? Conservative: only values that are
// constructed non-nil (or known non-nil on every incoming path) are "no".
func (p *Prog) mayBeNil(v ssa.Value, seen map[ssa.Value]bool) bool {
	if seen[v] {
		return false
	}
	seen[v] = true
	switch x := v.(type) {
	case *ssa.Const:
		return x.IsNil()
	case *ssa.MakeInterface:
		return false // a concrete value boxed into error is a non-nil interface
	case *ssa.UnOp:
		// a sentinel: `var errTruncated = errors.New(...)`, assigned once, in the package initialiser
		if g, ok := x.X.(*ssa.Global); ok && x.Op == token.MUL && p.sentinelError(g) {
			return false
		}
	case *ssa.Phi:
		for _, e := range x.Edges {
			if p.mayBeNil(e, seen) {
				return true
			}
		}
		return false
	case *ssa.Call:
		switch p.calleeName(x.Common()) {
		case "errors.New", "fmt.Errorf":
			return false
		}
		// module functions whose every return is non-nil (error constructors) or hands
		// back one of their own parameters (shared.Fail(err): exits when err != nil):
		// the result may be nil only if that argument may be nil at the call site
		if f := x.Common().StaticCallee(); f != nil && f.Blocks != nil && len(seen) < 12 {
			if ei := errResultIndex(f.Signature); ei == 0 && f.Signature.Results().Len() == 1 {
				all := true
				for _, r := range returnsOf(f) {
					for _, lf := range phiLeaves(retVal(r, 0), nil, map[*ssa.Phi]bool{}) {
						if par, ok := lf.V.(*ssa.Parameter); ok {
							idx := -1
							for i, pp := range f.Params {
								if pp == par {
									idx = i
								}
							}
							if idx >= 0 && idx < len(x.Call.Args) {
								arg := x.Call.Args[idx]
								if !p.mayBeNil(arg, seen) || p.knownNonNilAt(x.Parent(), arg, x.Block()) {
									continue
								}
							}
							all = false
							continue
						}
						if p.mayBeNil(lf.V, seen) {
							all = false
						}
					}
				}
				if all {
					return false
				}
			}
		}
		return true
	}
	return true
}

// returnsOf lists the normal returns of fn (the synthetic recover block, which only
// re-reads spilled results after a recovered panic, is skipped).
func returnsOf(fn *ssa.Function) []*ssa.Return {
	var out []*ssa.Return
	for _, b := range fn.Blocks {
		if len(b.Instrs) == 0 || b == fn.Recover {
			continue
		}
		if r, ok := b.Instrs[len(b.Instrs)-1].(*ssa.Return); ok {
			out = append(out, r)
		}
	}
	return out
}

// retVal resolves result #i of a return. In functions with defers go/ssa spills the
// results to Allocs (`*t0 = v; rundefers; t1 = *t0; return t1`); the value stored last
// in the returning block is what is returned unless a deferred closure rewrites it.
func retVal(r *ssa.Return, i int) ssa.Value {
	v := r.Results[i]
	ld, ok := v.(*ssa.UnOp)
	if !ok || ld.Op != token.MUL {
		return v
	}
	a, ok := ld.X.(*ssa.Alloc)
	if !ok {
		return v
	}
	instrs := r.Block().Instrs
	for j := len(instrs) - 1; j >= 0; j-- {
		if st, ok := instrs[j].(*ssa.Store); ok && st.Addr == a {
			return st.Val
		}
	}
	// value assigned earlier (named result): a single store anywhere
	if sv := singleStoreValue(ld); sv != nil {
		return sv
	}
	return v
}

func retVals(r *ssa.Return) []ssa.Value {
	out := make([]ssa.Value, len(r.Results))
	for i := range r.Results {
		out[i] = retVal(r, i)
	}
	return out
}

// knownNonNilAt: is v known non-nil when control reaches block b, because some If edge
// carrying (v != nil) dominates b?  Implemented as: delete all (v != nil) edges; if b is
// still reachable, v may be nil there.
func (p *Prog) knownNonNilAt(fn *ssa.Function, v ssa.Value, b *ssa.BasicBlock) bool {
	sv := stripConv(v)
	// a variable that lives in a cell (named result, captured variable): every load of the
	// cell stands for it, as long as nothing is stored into the cell between test and use
	// ... or in a field of a local struct (a parameter struct taken by value is spilled to one)
	var cell *ssa.Alloc
	field := -1
	if l, ok := sv.(*ssa.UnOp); ok && l.Op == token.MUL {
		cell, _ = l.X.(*ssa.Alloc)
		if fa, ok := l.X.(*ssa.FieldAddr); ok {
			if a, ok := fa.X.(*ssa.Alloc); ok && !allocEscapes(a) {
				cell, field = a, fa.Field
			}
		}
	}
	sameCell := func(x ssa.Value) bool {
		if cell == nil {
			return false
		}
		l, ok := stripConv(x).(*ssa.UnOp)
		if !ok || l.Op != token.MUL {
			return false
		}
		if field >= 0 {
			fa, ok := l.X.(*ssa.FieldAddr)
			return ok && fa.X == ssa.Value(cell) && fa.Field == field
		}
		return l.X == ssa.Value(cell)
	}
	g := Guard{Match: func(f Fact) bool { return f.Kind == NonNil && (f.V == v || f.V == sv || sameCell(f.V)) }}
	del := passEdges(fn, g)
	if len(del) == 0 {
		return false
	}
	if reach(fn, []*ssa.BasicBlock{fn.Blocks[0]}, del, nil)[b.Index] {
		return false
	}
	if cell != nil {
		// no store into the cell may lie between a passing test and the use
		var starts []*ssa.BasicBlock
		for e := range del {
			starts = append(starts, fn.Blocks[e.from].Succs[e.succ])
		}
		after := reach(fn, starts, nil, nil)
		var stores []*ssa.Store
		for _, r := range *cell.Referrers() {
			if st, ok := r.(*ssa.Store); ok && st.Addr == ssa.Value(cell) {
				stores = append(stores, st)
			}
			if fa, ok := r.(*ssa.FieldAddr); ok && field >= 0 && fa.Field == field {
				for _, r2 := range *fa.Referrers() {
					if st, ok := r2.(*ssa.Store); ok && st.Addr == ssa.Value(fa) {
						stores = append(stores, st)
					}
				}
			}
		}
		for _, st := range stores {
			sb := st.Block()
			if !after[sb.Index] {
				continue
			}
			if sb == b || reach(fn, sb.Succs, nil, nil)[b.Index] {
				// the spill of the very value being returned (`*err = Fail(*err)`) comes after the use
				if sb == b {
					if l, ok := sv.(*ssa.UnOp); ok && l.Block() == b && instrIndex(l) < instrIndex(st) {
						continue
					}
				}
				return false
			}
		}
	}
	return true
}

// allocEscapes: the address of the local (or of one of its fields) is used for anything but
// loads, stores and field selection - it may be written through an alias.
func allocEscapes(a *ssa.Alloc) bool {
	if a.Heap {
		return true
	}
	var visit func(v ssa.Value) bool
	visit = func(v ssa.Value) bool {
		for _, r := range *v.Referrers() {
			switch r := r.(type) {
			case *ssa.UnOp:
				if r.Op != token.MUL {
					return true
				}
			case *ssa.Store:
				if r.Val == v {
					return true
				}
			case *ssa.FieldAddr:
				if visit(r) {
					return true
				}
			case *ssa.DebugRef:
			default:
				return true
			}
		}
		return false
	}
	return visit(a)
}

// inputOf: v is one of fn's own inputs - a parameter (path empty) or a field of a struct the
// function was given, by value (go/ssa spills it to a local) or by pointer. A rule that means
// "the blob the caller passed" uses this instead of a parameter position, so that turning a
// parameter list into a parameter struct leaves it deciding the same thing.
func inputOf(fn *ssa.Function, v ssa.Value) (param int, path []int, ok bool) {
	switch v := v.(type) {
	case *ssa.Parameter:
		for i, pa := range fn.Params {
			if pa == v {
				return i, nil, true
			}
		}
	case *ssa.Field:
		if i, pp, ok := inputOf(fn, v.X); ok {
			return i, append(append([]int{}, pp...), v.Field), true
		}
	case *ssa.UnOp:
		if v.Op == token.MUL {
			return inputAddr(fn, v.X)
		}
	}
	return 0, nil, false
}

func inputAddr(fn *ssa.Function, addr ssa.Value) (int, []int, bool) {
	switch a := addr.(type) {
	case *ssa.FieldAddr:
		var i int
		var pp []int
		ok := false
		if pa, isP := a.X.(*ssa.Parameter); isP {
			i, pp, ok = inputOf(fn, pa)
		} else {
			i, pp, ok = inputAddr(fn, a.X)
		}
		if ok {
			return i, append(append([]int{}, pp...), a.Field), true
		}
	case *ssa.Alloc:
		// the spill of a by-value parameter: the only store into it is the parameter
		if allocEscapes(a) {
			return 0, nil, false
		}
		var src ssa.Value
		n := 0
		for _, r := range *a.Referrers() {
			if st, ok := r.(*ssa.Store); ok && st.Addr == ssa.Value(a) {
				src = st.Val
				n++
			}
		}
		if n == 1 {
			if _, isP := src.(*ssa.Parameter); isP && !fieldStored(a) {
				return inputOf(fn, src)
			}
		}
	}
	return 0, nil, false
}

func fieldStored(a *ssa.Alloc) bool {
	var visit func(v ssa.Value) bool
	visit = func(v ssa.Value) bool {
		for _, r := range *v.Referrers() {
			if fa, ok := r.(*ssa.FieldAddr); ok {
				for _, r2 := range *fa.Referrers() {
					if st, ok := r2.(*ssa.Store); ok && st.Addr == ssa.Value(fa) {
						return true
					}
				}
				if visit(fa) {
					return true
				}
			}
		}
		return false
	}
	return visit(a)
}

// actualOf: the caller's value for the callee input (param, path): the argument itself, or what
// the struct literal passed there holds in that field (nil: not a literal, or the field is left
// at its zero value).
func actualOf(call *ssa.CallCommon, param int, path []int) ssa.Value {
	if param >= len(call.Args) {
		return nil
	}
	v := call.Args[param]
	for _, f := range path {
		var lit *ssa.Alloc
		if l, ok := v.(*ssa.UnOp); ok && l.Op == token.MUL {
			lit, _ = l.X.(*ssa.Alloc)
		} else if a, ok := v.(*ssa.Alloc); ok {
			lit = a
		}
		if lit == nil {
			return nil
		}
		var val ssa.Value
		n := 0
		for _, r := range *lit.Referrers() {
			if fa, ok := r.(*ssa.FieldAddr); ok && fa.Field == f {
				for _, r2 := range *fa.Referrers() {
					if st, ok := r2.(*ssa.Store); ok && st.Addr == ssa.Value(fa) {
						val = st.Val
						n++
					}
				}
			}
		}
		if n != 1 {
			return nil
		}
		v = val
	}
	return v
}

// successReturns lists the Return instructions of fn whose error result may be nil
// (or all returns when fn has no error result).
func (p *Prog) successReturns(fn *ssa.Function) []*ssa.Return {
	ei := errResultIndex(fn.Signature)
	var out []*ssa.Return
	for _, r := range returnsOf(fn) {
		if ei < 0 {
			out = append(out, r)
			continue
		}
		if ei >= len(r.Results) {
			continue
		}
		ev := retVal(r, ei)
		if !p.mayBeNil(ev, map[ssa.Value]bool{}) {
			continue
		}
		if p.knownNonNilAt(fn, ev, r.Block()) {
			continue
		}
		out = append(out, r)
	}
	return out
}

// ---------------------------------------------------------------------------------
// wrappers: a same-module callee W "is a guard wrapper for G" when every success
// return of W is protected by G inside W (or by another wrapper, to a depth bound).

type wrapperCache map[string]bool

// guardOrWrapper extends a call guard so that `W(...) err==nil` / `W(...) == true`
// counts when W is a wrapper of the underlying guard. mk builds the underlying guard
// for a given function (so value constraints can be dropped inside wrappers).
func (p *Prog) errNilWrapperGuard(label string, base func(fn *ssa.Function) Guard, depth int) func(fn *ssa.Function) Guard {
	cache := map[*ssa.Function]int{} // 0 unknown, 1 yes, 2 no
	var isWrapper func(w *ssa.Function, d int) bool
	var mk func(fn *ssa.Function, d int) Guard
	mk = func(fn *ssa.Function, d int) Guard {
		b := base(fn)
		return Guard{Name: label, Match: func(f Fact) bool {
			if b.Match(f) {
				return true
			}
			if d <= 0 {
				return false
			}
			call, idx := resultOf(f.V)
			if call == nil {
				return false
			}
			w := call.Common().StaticCallee()
			if w == nil || w.Blocks == nil || !p.InModule(pkgOf(w)) {
				return false
			}
			sig := w.Signature
			ei := errResultIndex(sig)
			switch {
			case f.Kind == IsNil && ei >= 0 && (idx == ei || (idx < 0 && sig.Results().Len() == 1)):
				return isWrapper(w, d-1)
			case f.Kind == IsTrue && ei < 0 && sig.Results().Len() == 1 && isBool(sig.Results().At(0).Type()):
				return isBoolWrapper(p, w, mk(w, d-1))
			}
			return false
		}}
	}
	isWrapper = func(w *ssa.Function, d int) bool {
		if v := cache[w]; v != 0 {
			return v == 1
		}
		cache[w] = 2
		g := mk(w, d)
		del := passEdges(w, g)
		seen := reach(w, []*ssa.BasicBlock{w.Blocks[0]}, del, nil)
		ok := len(del) > 0
		for _, r := range p.successReturns(w) {
			if seen[r.Block().Index] {
				ok = false
			}
		}
		if ok {
			cache[w] = 1
		}
		return ok
	}
	return func(fn *ssa.Function) Guard { return mk(fn, depth) }
}

// isBoolWrapper: every `return true` (or return of a may-be-true value) in w is
// protected by g.
func isBoolWrapper(p *Prog, w *ssa.Function, g Guard) bool {
	del := passEdges(w, g)
	if len(del) == 0 {
		// also accept "return G(x)" directly
		for _, r := range returnsOf(w) {
			if g.Match(Fact{retVal(r, 0), IsTrue}) {
				continue
			}
			if b, ok := boolConst(retVal(r, 0)); ok && !b {
				continue
			}
			return false
		}
		return true
	}
	seen := reach(w, []*ssa.BasicBlock{w.Blocks[0]}, del, nil)
	for _, r := range returnsOf(w) {
		if b, ok := boolConst(retVal(r, 0)); ok && !b {
			continue
		}
		if g.Match(Fact{retVal(r, 0), IsTrue}) {
			continue
		}
		if seen[r.Block().Index] {
			return false
		}
	}
	return true
}

func isBool(t types.Type) bool {
	b, ok := t.Underlying().(*types.Basic)
	return ok && b.Kind() == types.Bool
}

func pkgOf(fn *ssa.Function) *types.Package {
	if fn.Pkg != nil {
		return fn.Pkg.Pkg
	}
	if fn.Parent() != nil {
		return pkgOf(fn.Parent())
	}
	if o := fn.Object(); o != nil {
		return o.Pkg()
	}
	return nil
}

// ---------------------------------------------------------------------------------
// misc

func sortedKeys[M ~map[string]V, V any](m M) []string {
	out := make([]string, 0, len(m))
	for k := range m {
		out = append(out, k)
	}
	sort.Strings(out)
	return out
}

// fieldOf: if v is (a load of) a field address x.f, return the struct type name
// (module-relative, no pointer) and the field name.
func (p *Prog) fieldAddr(v ssa.Value) (string, string, ssa.Value) {
	fa, ok := v.(*ssa.FieldAddr)
	if !ok {
		return "", "", nil
	}
	t := fa.X.Type()
	if pt, ok := t.Underlying().(*types.Pointer); ok {
		t = pt.Elem()
	}
	st, ok := t.Underlying().(*types.Struct)
	if !ok {
		return "", "", nil
	}
	return p.Rel(types.TypeString(t, nil)), st.Field(fa.Field).Name(), fa.X
}

func (p *Prog) fieldLoad(v ssa.Value) (string, string, ssa.Value) {
	switch x := v.(type) {
	case *ssa.UnOp:
		if x.Op == token.MUL {
			return p.fieldAddr(x.X)
		}
	case *ssa.Field:
		t := x.X.Type()
		st, ok := t.Underlying().(*types.Struct)
		if !ok {
			return "", "", nil
		}
		return p.Rel(types.TypeString(t, nil)), st.Field(x.Field).Name(), x.X
	}
	return "", "", nil
}

func short(s string, n int) string {
	s = strings.Join(strings.Fields(s), " ")
	if len(s) > n {
		return s[:n] + "…"
	}
	return s
}

// ---------------------------------------------------------------------------------
// backward data-dependence slice (within one function)

// dependsOn walks the operands of v backwards (through loads, conversions, calls, phis)
// and reports whether some value in the slice satisfies pred. Loads of local Allocs
// continue through the stores into them.
func dependsOn(v ssa.Value, pred func(ssa.Value) bool) bool {
	seen := map[ssa.Value]bool{}
	var walk func(v ssa.Value, d int) bool
	walk = func(v ssa.Value, d int) bool {
		if v == nil || seen[v] || d > 40 {
			return false
		}
		seen[v] = true
		if pred(v) {
			return true
		}
		if a, ok := v.(*ssa.Alloc); ok {
			// stores into the local, directly or through field / element addresses
			var addrs []ssa.Value = []ssa.Value{a}
			for i := 0; i < len(addrs) && i < 64; i++ {
				refs := addrs[i].Referrers()
				if refs == nil {
					continue
				}
				for _, r := range *refs {
					switch r := r.(type) {
					case *ssa.Store:
						if r.Addr == addrs[i] && walk(r.Val, d+1) {
							return true
						}
					case *ssa.FieldAddr:
						if r.X == addrs[i] {
							addrs = append(addrs, r)
						}
					case *ssa.IndexAddr:
						if r.X == addrs[i] {
							addrs = append(addrs, r)
						}
					}
				}
			}
			return false
		}
		in, ok := v.(ssa.Instruction)
		if !ok {
			return false
		}
		for _, op := range in.Operands(nil) {
			if op != nil && *op != nil {
				if walk(*op, d+1) {
					return true
				}
			}
		}
		return false
	}
	return walk(v, 0)
}

// isFieldLoadOf: v is a load (or address) of field `field` of a struct type named tn
// (module-relative "pkg.Type").
func (p *Prog) isFieldOf(v ssa.Value, tn, field string) bool {
	if t, f, _ := p.fieldLoad(v); t == tn && f == field {
		return true
	}
	if t, f, _ := p.fieldAddr(v); t == tn && f == field {
		return true
	}
	return false
}

// constInt returns the folded integer value of v.
func constInt(v ssa.Value) (int64, bool) {
	c, ok := v.(*ssa.Const)
	if !ok || c.Value == nil {
		return 0, false
	}
	if c.Value.Kind() != constant.Int {
		return 0, false
	}
	return constant.Int64Val(c.Value)
}

func constString(v ssa.Value) (string, bool) {
	c, ok := v.(*ssa.Const)
	if !ok || c.Value == nil || c.Value.Kind() != constant.String {
		return "", false
	}
	return constant.StringVal(c.Value), true
}

// sentinelError: g is a package-level error variable of the module whose only store in the whole
// module is `g = errors.New(...)` / `fmt.Errorf(...)` (or a boxed concrete value) in an init function.
func (p *Prog) sentinelError(g *ssa.Global) bool {
	if p.sentinels == nil {
		p.sentinels = map[*ssa.Global]bool{}
		stores := map[*ssa.Global]int{}
		good := map[*ssa.Global]int{}
		for _, fn := range p.Funcs {
			for _, b := range fn.Blocks {
				for _, in := range b.Instrs {
					st, ok := in.(*ssa.Store)
					if !ok {
						continue
					}
					gg, ok := st.Addr.(*ssa.Global)
					if !ok {
						continue
					}
					stores[gg]++
					if fn.Name() != "init" {
						continue
					}
					switch v := st.Val.(type) {
					case *ssa.Call:
						switch p.calleeName(v.Common()) {
						case "errors.New", "fmt.Errorf":
							good[gg]++
						}
					case *ssa.MakeInterface:
						good[gg]++
					}
				}
			}
		}
		for gg, n := range stores {
			if n == 1 && good[gg] == 1 {
				p.sentinels[gg] = true
			}
		}
	}
	return p.sentinels[g]
}

// trueReturnMissing: which of the guards can be missing when return r hands back true in result #idx?
// Edge-precise for a result that is a merged boolean (`return a && b && !c` is a phi of false constants
// and the last test): a leaf that is the constant false cannot make the result true, a leaf that is a
// test establishes its own facts by being true, and every other guard has to hold on the way into the leaf.
func (p *Prog) trueReturnMissing(fn *ssa.Function, r *ssa.Return, idx int, guards ...Guard) (missing []string, path []string) {
	v := retVal(r, idx)
	if _, isPhi := v.(*ssa.Phi); !isPhi {
		// a plain value: its own truth may establish some guards, the rest must hold on the way to the return
		var rest []Guard
		for _, g := range guards {
			own := false
			for _, f := range factsOf(v, true) {
				if g.Match(f) {
					own = true
				}
			}
			if !own {
				rest = append(rest, g)
			}
		}
		return p.unguardedFromEntry(fn, r, rest...)
	}
	for _, lf := range phiLeaves2(v, r.Block(), nil, map[*ssa.Phi]bool{}) {
		if b, ok := boolConst(lf.V); ok && !b {
			continue
		}
		for _, g := range guards {
			own := false
			for _, f := range factsOf(lf.V, true) {
				if g.Match(f) {
					own = true
				}
			}
			if own {
				continue
			}
			if leafUnguarded(fn, lf, g) {
				missing = append(missing, g.Name)
			}
		}
	}
	return missing, nil
}

// searchPredicate: v is s[slices.IndexFunc(s, pred)] - the element a library search selected;
// returns pred (a function of the module), nil otherwise.
func searchPredicate(v ssa.Value) *ssa.Function {
	l, ok := stripConv(v).(*ssa.UnOp)
	if !ok || l.Op != token.MUL {
		return nil
	}
	ia, ok := l.X.(*ssa.IndexAddr)
	if !ok {
		return nil
	}
	call, ok := ia.Index.(*ssa.Call)
	if !ok || len(call.Call.Args) != 2 || call.Call.Args[0] != ia.X {
		return nil
	}
	sc := call.Call.StaticCallee()
	if sc == nil || !strings.HasPrefix(sc.String(), "slices.IndexFunc[") {
		return nil
	}
	switch f := call.Call.Args[1].(type) {
	case *ssa.MakeClosure:
		fn, _ := f.Fn.(*ssa.Function)
		return fn
	case *ssa.Function:
		return f
	}
	return nil
}

// containsPredicate: v is slices.ContainsFunc(s, pred) - returns pred (a function of the module).
func containsPredicate(v ssa.Value) *ssa.Function {
	call, ok := stripConv(v).(*ssa.Call)
	if !ok || len(call.Call.Args) != 2 {
		return nil
	}
	sc := call.Call.StaticCallee()
	if sc == nil || !strings.HasPrefix(sc.String(), "slices.ContainsFunc[") {
		return nil
	}
	switch f := call.Call.Args[1].(type) {
	case *ssa.MakeClosure:
		fn, _ := f.Fn.(*ssa.Function)
		return fn
	case *ssa.Function:
		return f
	}
	return nil
}

// typeMatches: t is the named type whose printed form ends in want ("crypto.Hash",
// "signers.Signer" - also behind a pointer), or the basic type string for want == "string".
func typeMatches(t types.Type, want string) bool {
	if want == "string" {
		bt, ok := t.(*types.Basic)
		return ok && bt.Kind() == types.String
	}
	s := t.String()
	return strings.HasSuffix(s, "/"+want) || s == want || strings.HasSuffix(s, "*"+want)
}

// actualOfType: what a call passes for the one input of the given type: the positional argument of
// that type, or the field of that type of a request-struct literal passed by value.
func actualOfType(call ssa.CallInstruction, want string) ssa.Value {
	for _, a := range call.Common().Args {
		if typeMatches(a.Type(), want) {
			return a
		}
	}
	for _, a := range call.Common().Args {
		l, ok := a.(*ssa.UnOp)
		if !ok || l.Op != token.MUL {
			continue
		}
		lit, ok := l.X.(*ssa.Alloc)
		if !ok {
			continue
		}
		for _, r := range *lit.Referrers() {
			fa, ok := r.(*ssa.FieldAddr)
			if !ok {
				continue
			}
			for _, r2 := range *fa.Referrers() {
				if st, ok := r2.(*ssa.Store); ok && st.Addr == ssa.Value(fa) && typeMatches(st.Val.Type(), want) {
					return st.Val
				}
			}
		}
	}
	return nil
}

// inputOfType: v is fn's own input of the given type (a parameter, or a field of a parameter struct).
func inputOfType(fn *ssa.Function, v ssa.Value, want string) bool {
	if v == nil || !typeMatches(v.Type(), want) {
		return false
	}
	_, _, ok := inputOf(fn, v)
	return ok
}
