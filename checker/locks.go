package main

// E5b — must-hold lock sets (forward dataflow, intersection at joins).

import (
	"go/token"
	"go/types"
	"strings"

	"golang.org/x/tools/go/ssa"
)

// memKey names a memory location field-based: "g:server.healthMu" for a package-level
// variable, "f:tokencache.Cache.mu" for a struct field (any instance).
func (p *Prog) memKey(addr ssa.Value) string {
	switch x := addr.(type) {
	case *ssa.Global:
		if x.Pkg != nil {
			return "g:" + p.Rel(x.Pkg.Pkg.Path()) + "." + x.Name()
		}
	case *ssa.FieldAddr:
		tn, fn, _ := p.fieldAddr(x)
		if tn != "" {
			return "f:" + tn + "." + fn
		}
	case *ssa.UnOp:
		if x.Op == token.MUL {
			return p.memKey(x.X)
		}
	case *ssa.IndexAddr:
		return p.memKey(x.X)
	}
	return ""
}

type lockState map[string]bool

func (s lockState) clone() lockState {
	o := lockState{}
	for k := range s {
		o[k] = true
	}
	return o
}

// Shared (RLock) holds are recorded under key+"#r": they license reads only.
func isMutexMethod(p *Prog, c *ssa.CallCommon) (key string, lock, unlock bool) {
	obj := calleeObj(c)
	if obj == nil || obj.Pkg() == nil || obj.Pkg().Path() != "sync" {
		return
	}
	sig := obj.Type().(*types.Signature)
	if sig.Recv() == nil || len(c.Args) == 0 {
		return
	}
	switch obj.Name() {
	case "Lock", "RLock":
		lock = true
	case "Unlock", "RUnlock":
		unlock = true
	default:
		return
	}
	key = p.memKey(c.Args[0])
	if key != "" && (obj.Name() == "RLock" || obj.Name() == "RUnlock") {
		key += "#r"
	}
	return
}

// lockOK: does the must-hold set license an access of the given kind under lock key?
// A write needs the exclusive lock; a read is also fine under the shared (RLock) hold.
func lockOK(st lockState, key string, write bool) bool {
	if st[key] {
		return true
	}
	return !write && st[key+"#r"]
}

// anyExclusive: is any exclusive lock held?
func anyExclusive(st lockState) bool {
	for k := range st {
		if !strings.HasSuffix(k, "#r") {
			return true
		}
	}
	return false
}

// heldLocks computes, for every instruction of fn, the set of lock keys that are held
// on every path reaching it. A deferred Unlock keeps the lock to the function's exit.
func (p *Prog) heldLocks(fn *ssa.Function) map[ssa.Instruction]lockState {
	in := map[int]lockState{}
	var top lockState // nil = not yet visited (⊤)
	_ = top
	in[0] = lockState{}
	work := []*ssa.BasicBlock{fn.Blocks[0]}
	transfer := func(b *ssa.BasicBlock, st lockState, rec map[ssa.Instruction]lockState) lockState {
		st = st.clone()
		for _, ins := range b.Instrs {
			if rec != nil {
				rec[ins] = st.clone()
			}
			if call, ok := ins.(*ssa.Call); ok {
				key, lock, unlock := isMutexMethod(p, call.Common())
				if key != "" {
					if lock {
						st[key] = true
					}
					if unlock {
						delete(st, key)
					}
				}
			}
		}
		return st
	}
	for len(work) > 0 {
		b := work[0]
		work = work[1:]
		out := transfer(b, in[b.Index], nil)
		for _, s := range b.Succs {
			old, seen := in[s.Index]
			if !seen {
				in[s.Index] = out.clone()
				work = append(work, s)
				continue
			}
			changed := false
			for k := range old {
				if !out[k] {
					delete(old, k)
					changed = true
				}
			}
			if changed {
				work = append(work, s)
			}
		}
	}
	rec := map[ssa.Instruction]lockState{}
	for _, b := range fn.Blocks {
		if st, ok := in[b.Index]; ok {
			transfer(b, st, rec)
		}
	}
	return rec
}

// memAccess is a load or store of a keyed location.
type memAccess struct {
	Fn    *ssa.Function
	Instr ssa.Instruction
	Key   string
	Write bool
}

// accessesOf lists loads/stores in fn whose address has one of the given keys
// (nil keys: every keyed access). Map updates/lookups and slice element accesses through
// a keyed field count as accesses of that field.
func (p *Prog) accessesOf(fn *ssa.Function, keys map[string]bool) []memAccess {
	var out []memAccess
	add := func(in ssa.Instruction, addr ssa.Value, w bool) {
		k := p.memKey(addr)
		if k == "" {
			return
		}
		if keys != nil && !keys[k] {
			return
		}
		out = append(out, memAccess{fn, in, k, w})
	}
	for _, b := range fn.Blocks {
		for _, in := range b.Instrs {
			switch x := in.(type) {
			case *ssa.Store:
				add(in, x.Addr, true)
			case *ssa.UnOp:
				if x.Op == token.MUL {
					add(in, x.X, false)
				}
			case *ssa.MapUpdate:
				// m[k] = v where m was loaded from a keyed location
				if l, ok := x.Map.(*ssa.UnOp); ok && l.Op == token.MUL {
					add(in, l.X, true)
				}
			case *ssa.Call:
				// delete(m, k) on a keyed map
				if bi, ok := x.Call.Value.(*ssa.Builtin); ok && bi.Name() == "delete" && len(x.Call.Args) > 0 {
					if l, ok := x.Call.Args[0].(*ssa.UnOp); ok && l.Op == token.MUL {
						add(in, l.X, true)
					}
				}
			}
		}
	}
	return out
}
