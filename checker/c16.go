package main

// C16 — CMS structures survive parsing and re-encoding bit-exactly.

import (
	"fmt"
	"go/ast"
	"go/types"
	"strings"

	"golang.org/x/tools/go/ssa"
)

func init() {
	register(&propDef{
		ID: "C16",
		Meta: propMeta{
			Explanation: "Decides the structural mechanisms that make re-encoding lossless: (R16a) type shape — ContentInfo and SignerInfo capture their original encoding in a leading asn1.RawContent field, certificates, attribute values and issuer names are asn1.RawValue, marshalCertificates fills FullBytes from cert.Raw (removing any of these makes encoding/asn1 re-encode signed parts); (R16b) signed attributes are digested in the encoding that is emitted: the verifier hashes AuthenticatedAttributesBytes(), which returns the re-marshalled list only when no raw content was captured and otherwise re-tags the original bytes; the builder hashes and emits the same attribute list; (R16c) content-type and message-digest are added exactly once, only by SignatureBuilder.Sign under `authAttrs != nil`, with the builder's content type and digest; no other code adds those OIDs; no function calls Sign() twice on one builder or in a loop; (R16d) every SignatureBuilder.Sign result flows into pkcs9.TimestampAndMarshal, which self-checks (SignedData.Verify + VerifyOptionalTimestamp) before marshalling and returns the marshalled bytes of that same structure; (R16e) in lib/pkcs7 and lib/pkcs9 no failure branch of asn1.Marshal/Unmarshal reaches a nil-error return (one unreachable site noted); (R16f) Detach replaces the content by a content-less ContentInfo of the same type. (R16h) SignedData.CRLs keeps each CRL's signed part raw (asn1.RawValue or a tbsCertList with a leading RawContent); NewContentInfo records the content type it was asked for on every path; no parsed structure that is returned aliases a buffer that goes back into a sync.Pool. (R16g) a ContentInfo handed to the builder is stored, digested and emitted as it is. (R16i) no function writes a field of a SignedData, ContentInfoSignedData, ContentInfo or SignerInfo that it did not build itself (one reached from a parameter, a copy of a by-value parameter, a call result or a package variable), the unsigned attributes excepted, other than ContentInfoSignedData.Detach: getters and helpers on the way to embedding leave a received token exactly as it was parsed. (R16m) each of the six callers of TimestampAndMarshal passes the constant Authenticode switch its format requires (true for lib/authenticode and the catalog signer, false for the CMS formats), whether the switch is a positional argument or a field of a parameter struct (a field left out is false): the token lands under the attribute OID the format's other consumers read; (R16n) no function of lib/pkcs7 or lib/pkcs9 hands a slice it did not make itself to a library routine that edits in place (slices.Delete/DeleteFunc/Compact/Reverse/Sort/Insert/Replace, sort.Slice/Sort): parsing or verifying a decoded structure leaves its lists as decoded (zero instances today, positive control testdata/ctl/inplace); (R16k) wherever the result of the builtin copy is used, the function compares it (or a sum it enters) with the length of the copy's source, or the copy sits in a loop, or keeps the rest of the source (Read / ReadAt / Write methods, which report a partial transfer by contract, are not judged): an encoded structure is never cut off to the room that was left without that being noticed. (R16j) the asn1 tags of pkcs7.SignedData.Certificates and CRLs carry no `set`: encoding/asn1 would otherwise sort the lists on every Marshal and a parsed structure would be re-emitted in another order.",
			NotDecided:  "byte identity of Marshal(Unmarshal(x)) on concrete values (a property of encoding/asn1 on data), BER quirks of third-party tokens.",
			Assumptions: []string{"encoding/asn1 writes RawContent / RawValue.FullBytes verbatim"},
		},
		Run: runC16,
	})
}

// fieldTagOf returns the struct tag of the named field.
func fieldTagOf(p *Prog, pkgRel, typ, field string) string {
	pk := p.Pkg(pkgRel)
	if pk == nil {
		return ""
	}
	tn, _ := pk.Types.Scope().Lookup(typ).(*types.TypeName)
	if tn == nil {
		return ""
	}
	st, ok := tn.Type().Underlying().(*types.Struct)
	if !ok {
		return ""
	}
	for i := 0; i < st.NumFields(); i++ {
		if st.Field(i).Name() == field {
			return st.Tag(i)
		}
	}
	return ""
}

func fieldTypeOf(p *Prog, pkgRel, typ, field string) (types.Type, int) {
	pk := p.Pkg(pkgRel)
	if pk == nil {
		return nil, -1
	}
	tn, _ := pk.Types.Scope().Lookup(typ).(*types.TypeName)
	if tn == nil {
		return nil, -1
	}
	st, ok := tn.Type().Underlying().(*types.Struct)
	if !ok {
		return nil, -1
	}
	for i := 0; i < st.NumFields(); i++ {
		if st.Field(i).Name() == field {
			return st.Field(i).Type(), i
		}
	}
	return nil, -1
}

// isParamItself: v is the parameter, or a load of the local copy go/ssa makes of it.
func isParamItself(v ssa.Value, par *ssa.Parameter) bool {
	v = stripConv(v)
	if v == ssa.Value(par) {
		return true
	}
	if l, ok := v.(*ssa.UnOp); ok {
		if sv := singleStoreValue(l); sv != nil && stripConv(sv) == ssa.Value(par) {
			return true
		}
	}
	return false
}

func runC16(c *Ctx) {
	p := c.P
	c.Rule("R16a", "raw capture is in place (RawContent first fields, RawValue certificates/attribute values/issuer names)", 7)
	c.Rule("R16b", "attributes are digested in the encoding that is emitted", 5)
	c.Rule("R16c", "content-type and message-digest attributes are added exactly once, by the builder only", 6)
	c.Rule("R16d", "every built signature is self-checked before it is marshalled", 8)
	c.Rule("R16e", "codec errors never end in a nil error", 10)
	c.Rule("R16f", "Detach keeps the content type", 1)

	// ---- R16a
	shape := []struct {
		typ, field, want string
		idx              int
	}{
		{"ContentInfo", "Raw", "encoding/asn1.RawContent", 0},
		{"SignerInfo", "RawContent", "encoding/asn1.RawContent", 0},
		{"Attribute", "Values", "encoding/asn1.RawValue", -1},
		{"IssuerAndSerial", "IssuerName", "encoding/asn1.RawValue", -1},
		{"SignedData", "Certificates", "lib/pkcs7.RawCertificates", -1},
		{"SignedData", "ContentInfo", "lib/pkcs7.ContentInfo", -1},
		{"SignerInfo", "AuthenticatedAttributes", "lib/pkcs7.AttributeList", -1},
	}
	for _, s := range shape {
		ft, idx := fieldTypeOf(p, "lib/pkcs7", s.typ, s.field)
		key := fmt.Sprintf("lib/pkcs7.%s.%s", s.typ, s.field)
		if ft == nil {
			c.Fail("R16a", key, "-", "field not found: the raw-capture field was removed or renamed")
			continue
		}
		got := typeName(p, ft)
		ok := got == s.want && (s.idx < 0 || idx == s.idx)
		if tag := fieldTagOf(p, "lib/pkcs7", s.typ, s.field); strings.Contains(tag, `asn1:"-"`) {
			ok = false
			got += " (ignored by encoding/asn1: tag " + tag + ")"
		}
		c.Check(ok, "R16a", key, "-", got, fmt.Sprintf("field has type %s at index %d, expected %s%s: encoding/asn1 would re-encode this part instead of preserving the original bytes", got, idx, s.want, map[bool]string{true: " as the first field", false: ""}[s.idx >= 0]))
	}
	if pk := p.Pkg("lib/pkcs7"); pk != nil {
		if tn, _ := pk.Types.Scope().Lookup("RawCertificates").(*types.TypeName); tn != nil {
			got := typeName(p, tn.Type().Underlying())
			c.Check(got == "[]encoding/asn1.RawValue", "R16a", "lib/pkcs7.RawCertificates", "-", got, "RawCertificates is "+got+", not []asn1.RawValue: certificates would be re-encoded")
		} else {
			c.Fail("R16a", "lib/pkcs7.RawCertificates", "-", "type not found")
		}
	}
	if fn := p.Func("lib/pkcs7.marshalCertificates"); fn == nil {
		c.Undecided("R16a", "pkcs7.marshalCertificates", "-", "function not found")
	} else {
		c.Analysed(p.FName(fn))
		ok := false
		for _, b := range fn.Blocks {
			for _, in := range b.Instrs {
				if st, isSt := in.(*ssa.Store); isSt {
					if _, f, _ := p.fieldAddr(st.Addr); f == "FullBytes" {
						if _, f2, _ := p.fieldLoad(st.Val); f2 == "Raw" {
							ok = true
						}
					}
				}
			}
		}
		c.Check(ok, "R16a", "lib/pkcs7.marshalCertificates copies cert.Raw", p.Pos(fn.Pos()), "RawValue{FullBytes: cert.Raw}", "certificates are not embedded as their original DER (cert.Raw)")
	}

	// ---- R16b
	if fn := p.Func("lib/pkcs7.(*SignerInfo).Verify"); fn == nil {
		c.Undecided("R16b", "(*SignerInfo).Verify", "-", "function not found")
	} else {
		c.Analysed(p.FName(fn))
		aab := p.callsIn(fn, "(lib/pkcs7.SignerInfo).AuthenticatedAttributesBytes")
		hashed := false
		for _, w := range p.callsIn(fn, "(io.Writer).Write", "(hash.Hash).Write") {
			for _, a := range aab {
				src, idx := resultOf(w.Common().Args[0])
				if src == a && idx == 0 {
					hashed = true
				}
			}
		}
		// or handed to a helper of the package that writes that very parameter into a hash
		for _, b := range fn.Blocks {
			for _, in := range b.Instrs {
				ci, ok := in.(ssa.CallInstruction)
				if !ok {
					continue
				}
				h := ci.Common().StaticCallee()
				if h == nil || pkgOf(h) != pkgOf(fn) || len(h.Blocks) == 0 {
					continue
				}
				for k, arg := range ci.Common().Args {
					src, idx := resultOf(arg)
					isAab := false
					for _, a := range aab {
						if src == a && idx == 0 {
							isAab = true
						}
					}
					if !isAab || k >= len(h.Params) {
						continue
					}
					for _, w := range p.callsIn(h, "(io.Writer).Write", "(hash.Hash).Write") {
						if w.Common().Args[0] == ssa.Value(h.Params[k]) {
							hashed = true
						}
					}
				}
			}
		}
		c.Check(len(aab) == 1 && hashed, "R16b", p.FName(fn)+" hashes AuthenticatedAttributesBytes()", p.Pos(fn.Pos()), "attribute digest computed over the original encoding", "the verifier does not hash the bytes returned by AuthenticatedAttributesBytes()")
		remarshal := len(p.callsIn(fn, "(*lib/pkcs7.AttributeList).Bytes", "encoding/asn1.Marshal", "lib/pkcs7.marshalUnsortedSet"))
		c.Check(remarshal == 0, "R16b", p.FName(fn)+" does not re-marshal attributes", p.Pos(fn.Pos()), "", "the verifier re-marshals the parsed attribute list: a token whose attributes are not in Go's canonical order would fail to verify")
	}
	if fn := p.Func("lib/pkcs7.(SignerInfo).AuthenticatedAttributesBytes"); fn == nil {
		c.Undecided("R16b", "SignerInfo.AuthenticatedAttributesBytes", "-", "function not found")
	} else {
		c.Analysed(p.FName(fn))
		noRaw := Guard{Name: "RawContent==nil", Match: func(f Fact) bool {
			_, fld, _ := p.fieldLoad(f.V)
			return f.Kind == IsNil && fld == "RawContent"
		}}
		for i, ci := range p.callsIn(fn, "(*lib/pkcs7.AttributeList).Bytes") {
			missing, path := p.unguardedFromEntry(fn, ci, noRaw)
			c.Check(len(missing) == 0, "R16b", fmt.Sprintf("%s re-marshal only without raw content#%d", p.FName(fn), i+1), p.Pos(ci.Pos()), "parsed list re-encoded only when nothing was captured", "the parsed attribute list is re-encoded although the original encoding was captured", path...)
		}
		// the raw path decodes i.RawContent and re-tags element 3
		um := p.callsIn(fn, "encoding/asn1.Unmarshal")
		okRaw := false
		for _, u := range um {
			if _, f, _ := p.fieldLoad(stripConv(u.Common().Args[0])); f == "RawContent" {
				okRaw = true
			}
		}
		c.Check(okRaw, "R16b", p.FName(fn)+" uses the captured encoding", p.Pos(fn.Pos()), "asn1.Unmarshal(i.RawContent, &seq)", "the captured SignerInfo encoding is not used to recover the attributes")
	}
	sb := p.Func("lib/pkcs7.(*SignatureBuilder).Sign")
	if sb == nil {
		c.Undecided("R16b", "(*SignatureBuilder).Sign", "-", "function not found")
	} else {
		c.Analysed(p.FName(sb))
		// hashed: sb.authAttrs.Bytes(); emitted: AuthenticatedAttributes: sb.authAttrs
		hashedKey, emittedKey := "", ""
		for _, f := range c16SignFamily(p, sb) {
			for _, ci := range p.callsIn(f, "(*lib/pkcs7.AttributeList).Bytes") {
				hashedKey = p.memKey(ci.Common().Args[0])
			}
		}
		for _, b := range sb.Blocks {
			for _, in := range b.Instrs {
				if st, ok := in.(*ssa.Store); ok {
					if t, f, _ := p.fieldAddr(st.Addr); t == "lib/pkcs7.SignerInfo" && f == "AuthenticatedAttributes" {
						emittedKey = p.memKey(st.Val)
					}
				}
			}
		}
		c.Check(hashedKey != "" && hashedKey == emittedKey, "R16b", p.FName(sb)+" hashes what it emits", p.Pos(sb.Pos()), "both are "+hashedKey, fmt.Sprintf("the builder hashes %q but emits %q as AuthenticatedAttributes", hashedKey, emittedKey))
	}

	// ---- R16c
	addCalls := map[string][]string{}
	for _, fn := range p.Funcs {
		for _, ci := range p.callsIn(fn, "(*lib/pkcs7.AttributeList).Add", "(*lib/pkcs7.SignatureBuilder).AddAuthenticatedAttribute", "lib/pkcs7.appendAttr") {
			args := ci.Common().Args
			oid := p.memKey(args[1])
			switch oid {
			case "g:lib/pkcs7.OidAttributeContentType", "g:lib/pkcs7.OidAttributeMessageDigest":
				addCalls[oid] = append(addCalls[oid], p.FName(fn)+"@"+p.Pos(ci.Pos()))
				if sb != nil && c16InFamily(p, sb, fn) {
					nn := Guard{Name: "authAttrs != nil", Match: func(f Fact) bool {
						_, fld, _ := p.fieldLoad(f.V)
						return f.Kind == NonNil && fld == "authAttrs"
					}}
					missing, path := p.unguardedFromEntry(fn, ci, nn)
					inLoop := inCycleWith(fn, ci.Block(), nil)
					// value: content type of the builder / digest of the builder
					wantField := map[string]string{"g:lib/pkcs7.OidAttributeContentType": "ContentType", "g:lib/pkcs7.OidAttributeMessageDigest": "digest"}[oid]
					_, directField, _ := p.fieldLoad(stripConv(args[2]))
					okVal := directField == wantField
					c.Check(len(missing) == 0 && !inLoop && okVal, "R16c", "builder adds "+oid[len("g:lib/pkcs7."):], p.Pos(ci.Pos()), "once, under authAttrs != nil, from the builder's own "+wantField, fmt.Sprintf("required attribute is not added exactly once from the builder's %s (guarded:%v loop:%v value:%v)", wantField, len(missing) == 0, inLoop, okVal), path...)
				}
			}
		}
	}
	for _, oid := range []string{"g:lib/pkcs7.OidAttributeContentType", "g:lib/pkcs7.OidAttributeMessageDigest"} {
		sites := addCalls[oid]
		ok := len(sites) == 1
		if ok && sb != nil {
			ok = false
			for _, f := range c16SignFamily(p, sb) {
				if strings.HasPrefix(sites[0], p.FName(f)+"@") {
					ok = true
				}
			}
		}
		c.Check(ok, "R16c", "single adder of "+oid[len("g:lib/pkcs7."):], "-", strings.Join(sites, ","), fmt.Sprintf("attribute is added at %v; it must be added exactly once, by SignatureBuilder.Sign (a second copy makes the SET invalid)", sites))
	}
	// Sign() once per builder
	for _, fn := range p.Funcs {
		calls := p.callsIn(fn, "(*lib/pkcs7.SignatureBuilder).Sign")
		if len(calls) == 0 {
			continue
		}
		byRecv := map[ssa.Value]int{}
		loop := false
		for _, ci := range calls {
			byRecv[stripLoad(ci.Common().Args[0])]++
			if inCycleWith(fn, ci.Block(), nil) {
				loop = true
			}
		}
		dup := false
		for _, n := range byRecv {
			if n > 1 {
				dup = true
			}
		}
		c.Check(!dup && !loop, "R16c", p.FName(fn)+" signs each builder once", p.Pos(calls[0].Pos()), "", "Sign() is called more than once on the same builder (content-type / message-digest would be appended twice)")
	}

	// ---- R16d
	nSign := 0
	for _, fn := range p.Funcs {
		for _, ci := range p.callsIn(fn, "(*lib/pkcs7.SignatureBuilder).Sign") {
			call, ok := ci.(*ssa.Call)
			if !ok {
				continue
			}
			nSign++
			c.Analysed(p.FName(fn))
			var psd ssa.Value
			for _, r := range *call.Referrers() {
				if e, ok := r.(*ssa.Extract); ok && e.Index == 0 {
					psd = e
				}
			}
			flows := false
			for _, tm := range p.callsIn(fn, "lib/pkcs9.TimestampAndMarshal") {
				if psd != nil && tm.Common().Args[1] == psd {
					flows = true
				}
			}
			c.Check(flows, "R16d", fmt.Sprintf("%s Sign()#%d -> TimestampAndMarshal", p.FName(fn), nSign), p.Pos(ci.Pos()), "built signature goes through the self-check", "a freshly built signature is returned without going through pkcs9.TimestampAndMarshal (no post-construction self-check)")
		}
	}
	c.Check(nSign >= 6, "R16d", "builder Sign call sites", "-", fmt.Sprintf("%d", nSign), fmt.Sprintf("only %d call sites of SignatureBuilder.Sign found (expected 6)", nSign))
	if fn := p.Func("lib/pkcs9.TimestampAndMarshal"); fn == nil {
		c.Undecided("R16d", "pkcs9.TimestampAndMarshal", "-", "function not found")
	} else {
		c.Analysed(p.FName(fn))
		psd := fn.Params[1]
		onPsd := func(v ssa.Value) bool { return dependsOn(v, func(x ssa.Value) bool { return x == psd }) }
		ver := p.callGuard("SignedData.Verify()==nil", []string{"(*lib/pkcs7.SignedData).Verify"}, 1, IsNil, func(ci ssa.CallInstruction) bool {
			if !onPsd(ci.Common().Args[0]) {
				return false
			}
			// integrity checking enabled: skipDigests == false
			b, isB := boolConst(ci.Common().Args[2])
			return isB && !b
		})
		vts := p.callGuard("VerifyOptionalTimestamp()==nil", []string{"lib/pkcs9.VerifyOptionalTimestamp"}, 1, IsNil, nil)
		for i, r := range p.successReturns(fn) {
			missing, path := p.unguardedFromEntry(fn, r, ver, vts)
			c.Check(len(missing) == 0, "R16d", fmt.Sprintf("%s success-return#%d", p.FName(fn), i+1), p.Pos(r.Pos()), "self-check passed before returning", fmt.Sprintf("TimestampAndMarshal succeeds without %v", missing), path...)
		}
		ms := p.callsIn(fn, "(*lib/pkcs7.ContentInfoSignedData).Marshal")
		okM := len(ms) == 1 && ms[0].Common().Args[0] == psd
		if okM {
			missing, _ := p.unguardedFromEntry(fn, ms[0], ver, vts)
			okM = len(missing) == 0
		}
		c.Check(okM, "R16d", p.FName(fn)+" marshals after the check", p.Pos(fn.Pos()), "psd.Marshal() only after the self-check", "the structure is marshalled before (or without) the self-check, or a different structure is marshalled")
		// Raw = blob
		okRaw := false
		for _, b := range fn.Blocks {
			for _, in := range b.Instrs {
				if st, ok := in.(*ssa.Store); ok {
					if _, f, _ := p.fieldAddr(st.Addr); f == "Raw" && len(ms) == 1 {
						src, idx := resultOf(st.Val)
						okRaw = src == ms[0] && idx == 0
					}
				}
			}
		}
		c.Check(okRaw, "R16d", p.FName(fn)+" returns the marshalled bytes", p.Pos(fn.Pos()), "ts.Raw = blob", "the returned Raw bytes are not the marshalled, checked structure")
	}

	// ---- R16e
	known := map[string]string{
		"lib/pkcs7.NewContentInfo encoding/asn1.Marshal#2": "second Marshal of a struct holding an OID and a RawValue built two lines earlier cannot fail; `return ContentInfo{}, nil` on that branch is unreachable (noted, not a finding)",
	}
	for _, fn := range p.Funcs {
		pk := pkgOf(fn)
		if pk == nil {
			continue
		}
		rel := p.Rel(pk.Path())
		if rel != "lib/pkcs7" && rel != "lib/pkcs9" {
			continue
		}
		n := map[string]int{}
		for _, b := range fn.Blocks {
			for _, in := range b.Instrs {
				ci, ok := in.(*ssa.Call)
				if !ok {
					continue
				}
				name := p.calleeName(ci.Common())
				switch name {
				case "encoding/asn1.Marshal", "encoding/asn1.Unmarshal", "encoding/asn1.UnmarshalWithParams", "encoding/asn1.MarshalWithParams":
				default:
					continue
				}
				n[name]++
				key := fmt.Sprintf("%s %s#%d", p.FName(fn), name, n[name])
				c.Analysed(p.FName(fn))
				if errResultIndex(fn.Signature) < 0 {
					c.PassTrivial("R16e", key, p.Pos(ci.Pos()), "enclosing function has no error result")
					continue
				}
				if errDisposition(ci) == errDropped {
					c.Fail("R16e", key, p.Pos(ci.Pos()), "codec error discarded")
					continue
				}
				direct := false
				for _, r := range *ci.Referrers() {
					if _, ok := r.(*ssa.Return); ok {
						direct = true
					}
				}
				if direct {
					c.Pass("R16e", key, p.Pos(ci.Pos()), "returned directly")
					continue
				}
				ev := errValueOf(ci)
				// failure edge must not reach a literal nil-error return
				var starts []*ssa.BasicBlock
				for e := range passEdges(fn, errNonNilGuard(ev)) {
					starts = append(starts, fn.Blocks[e.from].Succs[e.succ])
				}
				bad := false
				var where string
				if len(starts) > 0 {
					seen := reach(fn, starts, nil, nil)
					ei := errResultIndex(fn.Signature)
					for _, r := range returnsOf(fn) {
						if seen[r.Block().Index] && isNilConst(retVal(r, ei)) {
							// is this return reachable ONLY via the failure edge? then definite
							del := passEdges(fn, errNonNilGuard(ev))
							if !reach(fn, []*ssa.BasicBlock{fn.Blocks[0]}, del, nil)[r.Block().Index] {
								bad = true
								where = p.Pos(r.Pos())
							}
						}
					}
				}
				if bad {
					if why, ok := known[key]; ok {
						c.PassTrivial("R16e", key, p.Pos(ci.Pos()), "noted exception: "+why)
						continue
					}
					c.Fail("R16e", key, p.Pos(ci.Pos()), "the failure branch of this codec call returns a nil error at "+where)
				} else {
					c.Pass("R16e", key, p.Pos(ci.Pos()), "failure propagates")
				}
			}
		}
	}

	// ---- R16b (cont.): AttributeList.Bytes encodes the list itself, marshalUnsortedSet only re-tags
	if fn := p.Func("lib/pkcs7.(*AttributeList).Bytes"); fn == nil {
		c.Undecided("R16b", "(*AttributeList).Bytes", "-", "function not found")
	} else {
		c.Analysed(p.FName(fn))
		ok := false
		calls := p.callsIn(fn, "lib/pkcs7.marshalUnsortedSet")
		if len(calls) == 1 {
			arg := stripConv(calls[0].Common().Args[0])
			if l, isLoad := arg.(*ssa.UnOp); isLoad && l.X == ssa.Value(fn.Params[0]) {
				ok = true
			}
		}
		nCalls := 0
		for _, b := range fn.Blocks {
			for _, in := range b.Instrs {
				if _, isCall := in.(ssa.CallInstruction); isCall {
					nCalls++
				}
			}
		}
		c.Check(ok && nCalls == 1, "R16b", p.FName(fn)+" encodes the list as it is", p.Pos(fn.Pos()), "return marshalUnsortedSet(*l)", "the bytes that are digested are not the encoding of the attribute list itself (it is copied, reordered or rewritten first), so what is signed differs from what is emitted")
	}
	if fn := p.Func("lib/pkcs7.marshalUnsortedSet"); fn == nil {
		c.Undecided("R16b", "pkcs7.marshalUnsortedSet", "-", "function not found")
	} else {
		c.Analysed(p.FName(fn))
		ms := p.callsIn(fn, "encoding/asn1.Marshal")
		ok := len(ms) == 1 && ms[0].Common().Args[0] == ssa.Value(fn.Params[0])
		// the only byte written is the tag byte
		for _, b := range fn.Blocks {
			for _, in := range b.Instrs {
				if st, isSt := in.(*ssa.Store); isSt {
					if ia, isIA := st.Addr.(*ssa.IndexAddr); isIA {
						if !isIntConst(ia.Index, 0) {
							ok = false
						}
					}
				}
			}
		}
		for _, r := range p.successReturns(fn) {
			src, idx := resultOf(retVal(r, 0))
			if len(ms) != 1 || src != ms[0] || idx != 0 {
				ok = false
			}
		}
		c.Check(ok, "R16b", p.FName(fn)+" only re-tags", p.Pos(fn.Pos()), "asn1.Marshal(v) with byte 0 changed from SEQUENCE to SET", "marshalUnsortedSet does more than change the tag of asn1.Marshal's output")
	}

	// ---- R16c (cont.): both required attributes are added on EVERY path with authenticated
	// attributes that reaches the key
	if sb != nil {
		signs := p.callsIn(sb, "(crypto.Signer).Sign")
		nnFalse := passEdges(sb, Guard{Match: func(f Fact) bool {
			_, fld, _ := p.fieldLoad(f.V)
			return f.Kind == IsNil && fld == "authAttrs"
		}})
		for _, ci := range p.callsIn(sb, "(*lib/pkcs7.AttributeList).Add") {
			oid := p.memKey(ci.Common().Args[1])
			if oid != "g:lib/pkcs7.OidAttributeContentType" && oid != "g:lib/pkcs7.OidAttributeMessageDigest" {
				continue
			}
			del := map[edge]bool{}
			for e := range nnFalse {
				del[e] = true
			}
			for _, pb := range ci.Block().Preds {
				for si, s2 := range pb.Succs {
					if s2 == ci.Block() {
						del[edge{pb.Index, si}] = true
					}
				}
			}
			bad := false
			seen := reach(sb, []*ssa.BasicBlock{sb.Blocks[0]}, del, nil)
			for _, sg := range signs {
				if seen[sg.Block().Index] && sg.Block() != ci.Block() {
					bad = true
				}
			}
			c.Check(!bad && len(signs) == 1, "R16c", "builder always adds "+oid[len("g:lib/pkcs7."):]+" before signing", p.Pos(ci.Pos()), "with authenticated attributes, the key is reached only through this Add", "the key can be reached with authenticated attributes present but without adding this required attribute on that path (the two required attributes get out of step, e.g. on a retried Sign())")
		}
	}

	// ---- R16g: parsed content is carried through the builder untouched
	c.Rule("R16g", "a ContentInfo handed to the builder is stored, digested and emitted as it is", 2)
	if fn := p.Func("lib/pkcs7.(*SignatureBuilder).SetContentInfo"); fn == nil {
		c.Undecided("R16g", "(*SignatureBuilder).SetContentInfo", "-", "function not found")
	} else {
		c.Analysed(p.FName(fn))
		okStore, okDigest := false, false
		for _, b := range fn.Blocks {
			for _, in := range b.Instrs {
				if st, ok := in.(*ssa.Store); ok {
					if _, f, _ := p.fieldAddr(st.Addr); f == "contentInfo" && isParamItself(st.Val, fn.Params[1]) {
						okStore = true
					}
				}
			}
		}
		for _, ci := range p.callsIn(fn, "(lib/pkcs7.ContentInfo).Bytes") {
			if dependsOn(ci.Common().Args[0], func(x ssa.Value) bool { return x == fn.Params[1] }) {
				okDigest = true
			}
		}
		c.Check(okStore && okDigest, "R16g", p.FName(fn)+" keeps the given ContentInfo", p.Pos(fn.Pos()), "sb.contentInfo = cinfo; digest over cinfo.Bytes()", "the builder does not store / digest the ContentInfo it was given (re-signing a catalog would re-encode its content)")
	}
	if sb != nil {
		okEmit := false
		for _, b := range sb.Blocks {
			for _, in := range b.Instrs {
				if st, ok := in.(*ssa.Store); ok {
					if t, f, _ := p.fieldAddr(st.Addr); t == "lib/pkcs7.SignedData" && f == "ContentInfo" && p.memKey(st.Val) == "f:lib/pkcs7.SignatureBuilder.contentInfo" {
						okEmit = true
					}
				}
			}
		}
		c.Check(okEmit, "R16g", p.FName(sb)+" emits the stored ContentInfo", p.Pos(sb.Pos()), "SignedData.ContentInfo = sb.contentInfo", "the emitted ContentInfo is not the one that was digested")
	}

	// re-signing a parsed SignedData: the parsed ContentInfo goes to the builder as it is
	for _, fn := range p.Funcs {
		ums := p.callsIn(fn, "lib/pkcs7.Unmarshal")
		nbs := p.callsIn(fn, "lib/pkcs7.NewBuilder")
		if len(ums) == 0 || len(nbs) == 0 {
			continue
		}
		c.Analysed(p.FName(fn))
		reenc := p.callsIn(fn, "(*lib/pkcs7.SignatureBuilder).SetContent", "(*lib/pkcs7.SignatureBuilder).SetContentData")
		okSet := false
		for _, ci := range p.callsIn(fn, "(*lib/pkcs7.SignatureBuilder).SetContentInfo") {
			arg := ci.Common().Args[1]
			if dependsOn(arg, func(x ssa.Value) bool {
				src, idx := resultOf(x)
				return src == ums[0] && idx == 0
			}) {
				_, f, _ := p.fieldLoad(stripConv(arg))
				if f == "ContentInfo" {
					okSet = true
				}
			}
		}
		c.Check(okSet && len(reenc) == 0, "R16g", p.FName(fn)+" re-signs the parsed content verbatim", p.Pos(fn.Pos()), "SetContentInfo(parsed.Content.ContentInfo)", "a parsed SignedData is re-signed over re-encoded content (SetContent/SetContentData of a decoded struct) instead of the original ContentInfo bytes: catalogs from other encoders change under the new signature")
	}

	// ---- R16f
	if fn := p.Func("lib/pkcs7.(*ContentInfoSignedData).Detach"); fn == nil {
		c.Undecided("R16f", "(*ContentInfoSignedData).Detach", "-", "function not found")
	} else {
		c.Analysed(p.FName(fn))
		ok := false
		for _, ci := range p.callsIn(fn, "lib/pkcs7.NewContentInfo") {
			_, f, _ := p.fieldLoad(ci.Common().Args[0])
			if f == "ContentType" && isNilConst(ci.Common().Args[1]) {
				ok = true
			}
		}
		c.Check(ok, "R16f", p.FName(fn)+" keeps the content type", p.Pos(fn.Pos()), "NewContentInfo(old ContentType, nil)", "Detach does not rebuild the ContentInfo with the same content type and no content")
	}
	c16Round2(c)
	c16WhoWrites(c)
}

// ------------------------------------------------------------------------------ R16h

// c16Round2: (a) CRLs carried in a SignedData keep the signed part of each CRL raw; (b)
// NewContentInfo records the content type it was asked for on every path; (c) bytes that were
// parsed into a returned structure are not in a pooled buffer (encoding/asn1 keeps RawContent /
// RawValue / FullBytes as sub-slices of its input).
func c16Round2(c *Ctx) {
	p := c.P
	c.Rule("R16h", "embedded CRLs keep their signed bytes raw; NewContentInfo records the requested type on every path; parsed structures do not alias pooled buffers", 2)
	// (a)
	if pk := p.Pkg("lib/pkcs7"); pk != nil {
		ok := false
		detail := "field not found"
		if tn, isT := pk.Types.Scope().Lookup("SignedData").(*types.TypeName); isT {
			if st, isS := tn.Type().Underlying().(*types.Struct); isS {
				for i := 0; i < st.NumFields(); i++ {
					if st.Field(i).Name() != "CRLs" {
						continue
					}
					ft := st.Field(i).Type()
					detail = ft.String()
					if sl, isSl := ft.Underlying().(*types.Slice); isSl {
						el := sl.Elem()
						if el.String() == "encoding/asn1.RawValue" {
							ok = true
						} else if es, isES := el.Underlying().(*types.Struct); isES {
							for j := 0; j < es.NumFields(); j++ {
								if es.Field(j).Name() != "TBSCertList" {
									continue
								}
								if ts, isTS := es.Field(j).Type().Underlying().(*types.Struct); isTS && ts.NumFields() > 0 && ts.Field(0).Type().String() == "encoding/asn1.RawContent" {
									ok = true
								}
							}
						}
					}
				}
			}
		}
		c.Check(ok, "R16h", "SignedData.CRLs keeps the signed part of a CRL raw", "-", detail, "SignedData.CRLs is declared as "+detail+", whose tbsCertList has no leading asn1.RawContent member: a CRL carried in a signature or timestamp token is re-encoded from parsed fields when the structure is marshalled again, and the CA's signature over it no longer verifies")
	}
	// (b)
	if fn := p.Func("lib/pkcs7.NewContentInfo"); fn == nil {
		c.Undecided("R16h", "NewContentInfo", "-", "function not found")
	} else {
		c.Analysed(p.FName(fn))
		var ctParam *ssa.Parameter
		for _, pa := range fn.Params {
			if pa.Name() == "contentType" {
				ctParam = pa
			}
		}
		ok := ctParam != nil
		n := 0
		for _, b := range fn.Blocks {
			for _, in := range b.Instrs {
				st, isSt := in.(*ssa.Store)
				if !isSt {
					continue
				}
				if tn, f, _ := p.fieldAddr(st.Addr); strings.HasSuffix(tn, "pkcs7.ContentInfo") && f == "ContentType" {
					n++
					if st.Val != ssa.Value(ctParam) {
						ok = false
					}
				}
			}
		}
		c.Check(ok && n >= 1, "R16h", "NewContentInfo records the requested content type", p.Pos(fn.Pos()), fmt.Sprintf("%d stores, all of the parameter", n), "NewContentInfo can return a ContentInfo whose ContentType is not the type it was asked for: after Detach() the eContentType no longer matches the signed content-type attribute")
	}
	// (c)
	for _, f := range poolEscapes(p) {
		c.Check(f.OK, "R16h", f.Key, f.Pos, "", f.Detail)
	}
	c.runControl("R16h pooled memory also returned", "hasher).release", poolEscapes)
}

// ------------------------------------------------------------------------------ R16i

// c16WhoWrites: a SignedData, ContentInfo or SignerInfo that a function did not build itself - one
// it was handed, parsed, or copied from a parameter - is written to by nobody but Detach (which
// replaces the content with the content-less form and nothing else). Getters, "normalising"
// helpers and de-duplication on the way to embedding change what a third party signed.
var c16Writers = map[string]string{
	"(*lib/pkcs7.ContentInfoSignedData).Detach lib/pkcs7.SignedData.ContentInfo": "Detach: the eContent is removed, the eContentType kept (R16c checks what it stores)",
}

func c16WhoWrites(c *Ctx) {
	p := c.P
	c.Rule("R16i", "a received or parsed SignedData / ContentInfo / SignerInfo is written to only by Detach; everything else builds fresh values", 1)
	c.Rule("R16m", "every caller of TimestampAndMarshal passes the Authenticode switch its format requires (a field left out of a parameter struct is false)", 6)
	for _, f := range tokenAttachedUnderTheFormatsOID(p) {
		c.Check(f.OK, "R16m", f.Key, f.Pos, "", f.Detail)
	}
	c.Rule("R16n", "in lib/pkcs7 and lib/pkcs9 a library routine that edits a slice in place is given only a slice the function made itself", 0)
	for _, f := range decodedListsNotEditedInPlace(p) {
		c.Check(f.OK, "R16n", f.Key, f.Pos, "", f.Detail)
	}
	c.runControl("R16n in-place edit of a caller's list control (ctl/inplace.Valid)", "inplace.Raw).Valid in-place", decodedListsNotEditedInPlace)
	c.Rule("R16k", "where the count copy() returns is used it is compared with the length of the source (module-wide)", 0)
	for _, f := range copyCountsNotTrusted(c.P) {
		c.Check(f.OK, "R16k", f.Key, f.Pos, "", f.Detail)
	}
	c.runControl("R16k copy count control (ctl/idxin.Place)", "idxin.Place", copyCountsNotTrusted)
	c.Rule("R16j", "the certificate and CRL lists of SignedData are marshalled in the order they were parsed in (no `set` tag; shared with C07 R07i)", 2)
	for _, f := range cmsListsKeepOrder(c.P) {
		c.Check(f.OK, "R16j", f.Key, f.Pos, "", f.Detail)
	}
	guarded := map[string]bool{"lib/pkcs7.SignedData": true, "lib/pkcs7.ContentInfoSignedData": true, "lib/pkcs7.ContentInfo": true, "lib/pkcs7.SignerInfo": true}
	n := 0
	for _, fn := range p.Funcs {
		for _, b := range fn.Blocks {
			for _, in := range b.Instrs {
				st, ok := in.(*ssa.Store)
				if !ok {
					continue
				}
				tn, f, base := p.fieldAddr(st.Addr)
				if !guarded[tn] {
					continue
				}
				// unsigned attributes are the place where tokens are attached
				if tn == "lib/pkcs7.SignerInfo" && f == "UnauthenticatedAttributes" {
					continue
				}
				fresh, origin := true, "a fresh local value"
				v := base
				for i := 0; i < 16 && v != nil; i++ {
					switch x := v.(type) {
					case *ssa.FieldAddr:
						v = x.X
						continue
					case *ssa.IndexAddr:
						v = x.X
						continue
					case *ssa.UnOp:
						v = x.X
						continue
					case *ssa.Parameter:
						fresh, origin = false, "parameter "+x.Name()
					case *ssa.Call, *ssa.Extract:
						fresh, origin = false, "the result of a call"
					case *ssa.Global:
						fresh, origin = false, "a package variable"
					case *ssa.Alloc:
						// the spill of a by-value parameter is the parameter
						for _, ref := range *x.Referrers() {
							if s2, ok := ref.(*ssa.Store); ok && s2.Addr == ssa.Value(x) {
								if pa, isP := s2.Val.(*ssa.Parameter); isP {
									fresh, origin = false, "a copy of parameter "+pa.Name()
								}
							}
						}
					}
					break
				}
				if fresh {
					continue
				}
				n++
				key := fmt.Sprintf("%s %s.%s", p.FName(fn), tn, f)
				c.Analysed(p.FName(fn))
				if why, ok := c16Writers[key]; ok {
					c.PassTrivial("R16i", key, p.Pos(st.Pos()), "allowed writer: "+why)
					continue
				}
				c.Fail("R16i", key, p.Pos(st.Pos()), fmt.Sprintf("%s.%s of %s is overwritten: the structure was parsed from, or will be emitted as, bytes that carry somebody's signature (a timestamp authority's token, a catalog, a received SignedData); changing a signed field - the content, the certificate set, a signer-info - between parsing and emitting makes the emitted bytes differ from the signed ones, or drops material a third-party verifier needs", tn, f, origin))
			}
		}
	}
	if n == 0 {
		c.Undecided("R16i", "writers of received pkcs7 structures", "-", "not even Detach's store was found")
	}
}

// c16SignFamily: SignatureBuilder.Sign and the unexported methods of the builder that only Sign calls
// (steps of Sign that were given a name).
func c16SignFamily(p *Prog, sign *ssa.Function) []*ssa.Function {
	out := []*ssa.Function{sign}
	for _, b := range sign.Blocks {
		for _, in := range b.Instrs {
			ci, ok := in.(ssa.CallInstruction)
			if !ok {
				continue
			}
			g := ci.Common().StaticCallee()
			if g == nil || len(g.Blocks) == 0 || g.Signature.Recv() == nil || ast.IsExported(g.Name()) {
				continue
			}
			if sign.Signature.Recv() == nil || !types.Identical(g.Signature.Recv().Type(), sign.Signature.Recv().Type()) {
				continue
			}
			// called from nowhere else
			only := true
			for _, fn := range p.Funcs {
				if fn == sign {
					continue
				}
				for _, bb := range fn.Blocks {
					for _, i2 := range bb.Instrs {
						if c2, ok := i2.(ssa.CallInstruction); ok && c2.Common().StaticCallee() == g {
							only = false
						}
					}
				}
			}
			// and once, outside any loop
			if only && !inCycleWith(sign, ci.Block(), nil) {
				out = append(out, g)
			}
		}
	}
	return out
}

func c16InFamily(p *Prog, sign, fn *ssa.Function) bool {
	for _, f := range c16SignFamily(p, sign) {
		if f == fn {
			return true
		}
	}
	return false
}
