package main

// C01, rules added after the second seeding round: R01f (the one-pass signature header of an
// inline PGP message repeats the signature packet), R01g (a configured certificate file takes
// precedence over what the token returned).

import (
	"fmt"
	"go/token"
	"strings"

	"golang.org/x/tools/go/ssa"
)

func c01Round2(c *Ctx) {
	p := c.P
	c.Rule("R01f", "the one-pass signature packet written in front of an inline PGP message copies type, hash, key algorithm and key id from the signature it announces", 3)
	c.Rule("R01g", "the certificate file configured for a key is read whenever it is configured, whatever the token returned", 1)
	c.Rule("R01h", "an in-place patch truncates the file to the end of its last patch (shared with C08 R08g)", 1)

	fs := onePassCopies(p)
	if len(fs) == 0 {
		c.Undecided("R01f", "packet.OnePassSignature literal", "-", "no OnePassSignature is built in the module (lib/pgptools.writeOnePass did)")
	}
	for _, f := range fs {
		c.Check(f.OK, "R01f", f.Key, f.Pos, "copied from the signature packet", f.Detail)
	}
	if fn := p.Func("lib/certloader.LoadTokenCertificates"); fn == nil {
		c.Undecided("R01g", "certloader.LoadTokenCertificates", "-", "function not found")
	} else {
		c.Analysed(p.FName(fn))
		for _, f := range configuredCertFirst(p, fn) {
			c.Check(f.OK, "R01g", f.Key, f.Pos, "depends on the configured path only", f.Detail)
		}
	}
	for _, f := range truncateNotMax(p) {
		c.Check(f.OK, "R01h", f.Key, f.Pos, "assigned, not maximised", f.Detail)
	}
	c.Rule("R01i", "xmldsig.Sign removes an existing Signature before it digests the document (shared with C19 R19d)", 1)
	if sign := p.Func("lib/xmldsig.Sign"); sign == nil {
		c.Undecided("R01i", "xmldsig.Sign", "-", "function not found")
	} else {
		hc := p.callsIn(sign, "lib/xmldsig.hashCanon")
		rm := p.callsIn(sign, "lib/xmldsig.RemoveElements")
		ok := len(hc) > 0 && len(rm) > 0
		for _, h := range hc {
			before := false
			for _, r := range rm {
				if reachableAfter(sign, r, h, nil, nil) && !reachableAfter(sign, h, r, nil, nil) {
					before = true
				}
			}
			if !before {
				ok = false
			}
		}
		c.Check(ok, "R01i", "Sign removes the old Signature before digesting", p.Pos(sign.Pos()), "RemoveElements before hashCanon", "the reference digest is taken while a previous Signature element is still in the document: signing an already signed manifest succeeds and relic's own verifier then rejects it with a digest mismatch")
	}
	c.Rule("R01j", "the inline PGP packet header uses the RFC 4880 length boundaries (shared with C05 R05n)", 2)
	for _, f := range pgpLengthThresholds(p) {
		c.Check(f.OK, "R01j", f.Key, f.Pos, "", f.Detail)
	}
	c.Rule("R01k", "a table header loaded from an object is not written through after a call that may grow and reassign that table", 1)
	for _, f := range staleSliceHeaders(p) {
		c.Check(f.OK, "R01k", f.Key, f.Pos, "no element store through the earlier header", f.Detail)
	}
	c.runControl("R01k stale slice header control (ctl/stale.Add)", "stale.Doc).Add:", staleSliceHeaders)
	c.Rule("R01m", "replacing the signature stream of an MSI frees exactly the old stream's chain, in the table it lives in, and removes the name it adds (shared with C03 R03c and C18 R18e)", 6)
	c03RuleDelete = "R01m"
	c03Delete(c)
	c03RuleDelete = "R03c"
	c18RuleCutoff = "R01m"
	c18Cutoff(c, p.pkgFuncs("lib/comdoc"))
	c18RuleCutoff = "R18e"
	c.Rule("R01n", "the span removed for an old Debian signature member is even: computed from the member header and rounded up, or made even where it is measured (shared with C03 R03h)", 1)
	if fn := p.Func("lib/signdeb.Sign"); fn != nil {
		for _, f := range arSpanPadded(p, fn) {
			c.Check(f.OK, "R01n", f.Key, f.Pos, f.Detail, f.Detail)
		}
	}
	c.Rule("R01l", "signdeb.Sign leaves every _gpg* member out of what the new signature lists (shared with C08 R08b)", 1)
	for _, f := range debSkipsSignatureMembers(p) {
		c.Check(f.OK, "R01l", f.Key, f.Pos, "", f.Detail)
	}
}

func onePassCopies(p *Prog) (out []gFinding) {
	want := map[string]string{"SigType": "SigType", "Hash": "Hash", "PubKeyAlgo": "PubKeyAlgo", "KeyId": "IssuerKeyId"}
	for _, fn := range p.Funcs {
		for _, b := range fn.Blocks {
			for _, in := range b.Instrs {
				st, ok := in.(*ssa.Store)
				if !ok {
					continue
				}
				tn, f, _ := p.fieldAddr(st.Addr)
				if !strings.HasSuffix(tn, "packet.OnePassSignature") || want[f] == "" {
					continue
				}
				src := want[f]
				ok2 := dependsOnNoCall(st.Val, func(x ssa.Value) bool {
					tn2, f2, _ := p.fieldLoad(x)
					if strings.HasSuffix(tn2, "packet.Signature") && f2 == src {
						return true
					}
					if u, isU := x.(*ssa.UnOp); isU && u.Op == token.MUL {
						// *pkt.IssuerKeyId
						tn3, f3, _ := p.fieldLoad(u.X)
						return strings.HasSuffix(tn3, "packet.Signature") && f3 == src
					}
					return false
				})
				out = append(out, gFinding{Key: fmt.Sprintf("%s OnePassSignature.%s", p.FName(fn), f), Pos: p.Pos(st.Pos()), OK: ok2,
					Detail: "OnePassSignature." + f + " is not copied from the " + src + " of the signature packet: the reader sets up its hash (text or binary canonicalisation, algorithm) from the one-pass header, so a header that disagrees with the signature makes a valid signature fail to verify"})
			}
		}
	}
	return out
}

func configuredCertFirst(p *Prog, fn *ssa.Function) (out []gFinding) {
	// the path parameter: the string parameter that reaches ReadFile before the blob is parsed
	var reads []ssa.CallInstruction
	for _, ci := range p.callsIn(fn, "io/ioutil.ReadFile", "os.ReadFile") {
		reads = append(reads, ci)
	}
	var blobParam *ssa.Parameter
	for _, pa := range fn.Params {
		if pa.Type().String() == "[]byte" {
			blobParam = pa
		}
	}
	if blobParam == nil || len(reads) == 0 {
		return []gFinding{{Key: p.FName(fn) + " shape", Pos: p.Pos(fn.Pos()), OK: false, Detail: "expected a []byte parameter (certificate from the token) and a ReadFile of the configured path"}}
	}
	n := 0
	for _, ci := range reads {
		arg := stripConv(ci.Common().Args[0])
		pa, ok := arg.(*ssa.Parameter)
		if !ok {
			continue
		}
		// only the X.509 path: the one whose result can replace the token's blob
		feedsBlob := false
		if v := ci.Value(); v != nil {
			for _, b := range fn.Blocks {
				for _, in := range b.Instrs {
					if ph, ok := in.(*ssa.Phi); ok {
						hasParam, hasRead := false, false
						for _, e := range ph.Edges {
							if e == ssa.Value(blobParam) {
								hasParam = true
							}
							if ex, ok := e.(*ssa.Extract); ok && ex.Tuple == ssa.Value(v) {
								hasRead = true
							}
						}
						if hasParam && hasRead {
							feedsBlob = true
						}
					}
				}
			}
		}
		if !feedsBlob {
			continue
		}
		n++
		key := fmt.Sprintf("%s reads %s whenever it is set", p.FName(fn), pa.Name())
		bad := ""
		for _, b := range fn.Blocks {
			if b == ci.Block() || !b.Dominates(ci.Block()) {
				continue
			}
			ifi, ok := b.Instrs[len(b.Instrs)-1].(*ssa.If)
			if !ok {
				continue
			}
			if dependsOn(ifi.Cond, func(x ssa.Value) bool { return x == ssa.Value(blobParam) }) {
				bad = p.Pos(lastPos(b))
			}
		}
		out = append(out, gFinding{Key: key, Pos: p.Pos(ci.Pos()), OK: bad == "",
			Detail: "whether the configured certificate file is read depends on what the token returned (test at " + bad + "): a certificate object stored in the token then shadows the x509certificate configured for the key, and the signature names the token's (old) certificate instead of the configured one"})
	}
	if n == 0 {
		out = append(out, gFinding{Key: p.FName(fn) + " reads the configured certificate", Pos: p.Pos(fn.Pos()), OK: false, Detail: "no ReadFile of a path parameter whose result replaces the token's certificate blob"})
	}
	return out
}
