// Package poolesc is a positive control: a buffer is handed to a sync.Pool and also returned.
package poolesc

import "sync"

var tables sync.Pool

type hasher struct{ sums []byte }

func (h *hasher) result() []byte { return h.sums }

func (h *hasher) release() {
	t := h.sums[:0]
	tables.Put(&t)
	h.sums = nil
}

// Digest returns memory that release() has already given to the pool.
func Digest(data []byte) []byte {
	h := &hasher{sums: make([]byte, 0, 64)}
	defer h.release()
	h.sums = append(h.sums, data...)
	return h.result()
}
