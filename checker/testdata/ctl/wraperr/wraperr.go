// Package wraperr is the positive control of R08f: an error that callers recognise by a type
// switch is wrapped on its way up.
package wraperr

import "fmt"

type NoKey struct{ ID uint64 }

func (e NoKey) Error() string { return fmt.Sprintf("no key %x", e.ID) }

func find(id uint64) error {
	if id == 0 {
		return NoKey{id}
	}
	return nil
}

func Verify(id uint64) error {
	if err := find(id); err != nil {
		return fmt.Errorf("role origin: %w", err)
	}
	return nil
}

func IsSigned(id uint64) bool {
	err := Verify(id)
	switch err.(type) {
	case NoKey:
		return true
	}
	return err == nil
}
