package wraperr

import (
	"io"
	"os"
)

func decompress(f *os.File) (io.Reader, error) { return f, nil }

// Open is the positive control of R02m: the failure of the second call is reported with the first
// call's error, which is nil there.
func Open(path string) (io.Reader, error) {
	f, err := os.Open(path)
	if err != nil {
		return nil, err
	}
	r, err2 := decompress(f)
	if err2 != nil {
		return nil, err
	}
	return r, nil
}
