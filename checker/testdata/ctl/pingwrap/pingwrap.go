// Package pingwrap is the positive control of R20h: a wrapper that answers the health ping itself.
package pingwrap

import "context"

type Token interface {
	Ping(ctx context.Context) error
}

type Cache struct {
	Token
	warm bool
}

func (c *Cache) Ping(ctx context.Context) error {
	if c.warm {
		return nil
	}
	return c.Token.Ping(ctx)
}
