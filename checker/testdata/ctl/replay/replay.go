// Package replay is a positive control for R09n: the extra file is kept as a reader that the first GetReader uses up.
package replay

import (
	"bytes"
	"io"
)

type extra struct {
	Name string
	Data *bytes.Reader
}

type T struct {
	files []extra
}

func (t *T) GetReader() (io.Reader, error) {
	var rs []io.Reader
	for _, f := range t.files {
		rs = append(rs, f.Data)
	}
	return io.MultiReader(rs...), nil
}
