// Package sharedbuf is the positive control of R07g/R14h: a scratch buffer kept in a long-lived
// object whose bytes are handed to callers.
package sharedbuf

import (
	"bytes"
	"encoding/json"
	"sync"
)

type Client struct {
	mu  sync.Mutex
	buf bytes.Buffer
}

func (c *Client) Encode(v interface{}) ([]byte, error) {
	c.mu.Lock()
	defer c.mu.Unlock()
	c.buf.Reset()
	if err := json.NewEncoder(&c.buf).Encode(v); err != nil {
		return nil, err
	}
	return c.buf.Bytes(), nil
}
