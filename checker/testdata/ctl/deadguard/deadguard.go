// Package deadguard is the positive control of R13i: a deferred clean-up that asks an error
// variable nothing assigns any more (the later steps declare their own err).
package deadguard

import (
	"io"
	"os"
)

func Copy(src io.Reader, dest string) (*os.File, error) {
	out, err := os.Create(dest)
	if err != nil {
		return nil, err
	}
	defer func() {
		if err != nil {
			out.Close()
			os.Remove(dest)
		}
	}()
	if _, err := io.Copy(out, src); err != nil {
		return nil, err
	}
	return out, nil
}

// CopyNamed is the negative twin: the named result is what every return assigns.
func CopyNamed(src io.Reader, dest string) (out *os.File, err error) {
	out, err = os.Create(dest)
	if err != nil {
		return nil, err
	}
	defer func() {
		if err != nil {
			out.Close()
			os.Remove(dest)
		}
	}()
	if _, err := io.Copy(out, src); err != nil {
		return nil, err
	}
	return out, nil
}
