// Package cursor is a positive control for R11s: Wrap's next position can fall back onto the cursor.
package cursor

// Wrap cuts line into pieces of at most 70 bytes without splitting a continuation byte run.
func Wrap(line []byte) [][]byte {
	var out [][]byte
	for i := 0; i < len(line); {
		j := i + 70
		if j > len(line) {
			j = len(line)
		}
		for j < len(line) && j > i && line[j]&0xc0 == 0x80 {
			j--
		}
		out = append(out, line[i:j])
		i = j
	}
	return out
}

// Good is the same loop without the retreat; it must stay silent.
func Good(line []byte) [][]byte {
	var out [][]byte
	for i := 0; i < len(line); {
		j := i + 70
		if j > len(line) {
			j = len(line)
		}
		out = append(out, line[i:j])
		i = j
	}
	return out
}
