// Package elemptr is a positive control: a pointer to a slice element is cached in a field
// although the slice is grown with append.
package elemptr

type Row struct{ Size int }

type Table struct {
	Rows []Row
	root *Row
}

// Open caches the address of an element.
func (t *Table) Open(rows []Row, i int) {
	t.Rows = rows
	t.root = &rows[i]
}

// Add may reallocate Rows: t.root then points at the old copy.
func (t *Table) Add(r Row) {
	t.Rows = append(t.Rows, r)
	t.root.Size++
}
