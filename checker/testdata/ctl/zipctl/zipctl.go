// Package zipctl is a positive control: a 32-bit record size is compared with the 64-bit
// size without the ZIP64 sentinel test.
package zipctl

type zipLocalHeader struct {
	Signature        uint32
	CompressedSize   uint32
	UncompressedSize uint32
}

type File struct {
	CompressedSize uint64
	lfh            zipLocalHeader
}

// Check is blind to the sentinel.
func Check(f *File) bool {
	return uint64(f.lfh.CompressedSize) == f.CompressedSize
}

// CheckOK tests for the sentinel first.
func CheckOK(f *File) bool {
	if f.lfh.CompressedSize == 0xffffffff {
		return true
	}
	return uint64(f.lfh.CompressedSize) == f.CompressedSize
}
