// Package memo is the positive control of R10j: a verdict remembered across calls.
package memo

import (
	"sync"
	"time"
)

var seen sync.Map

type Cert struct {
	Raw      string
	NotAfter time.Time
}

func Verify(c *Cert, now time.Time) bool {
	if _, ok := seen.Load(c.Raw); ok {
		return true
	}
	if now.After(c.NotAfter) {
		return false
	}
	seen.Store(c.Raw, true)
	return true
}
