// Package chain is a positive control: a sector-chain walk whose only exit is the
// end-of-chain sentinel, over a table that comes from the file.
package chain

type Doc struct {
	SAT   []int32
	First int32
}

func (d *Doc) Walk() (n int) {
	for s := d.First; s >= 0; s = d.SAT[s] {
		n++
	}
	return n
}

// WalkOK has an independent bound and must stay silent.
func (d *Doc) WalkOK() (n int) {
	for s := d.First; s >= 0; s = d.SAT[s] {
		n++
		if n > len(d.SAT) {
			return -1
		}
	}
	return n
}
