module ctl

go 1.22
