// Package idx is a positive control: a constant index into a string whose length nobody
// tested.
package idx

import "strings"

func First(version string) byte {
	upstream := version
	if i := strings.IndexByte(version, ':'); i >= 0 {
		upstream = version[i+1:]
	}
	return upstream[0]
}

// FirstOK must stay silent.
func FirstOK(version string) byte {
	if len(version) == 0 {
		return 0
	}
	return version[0]
}
