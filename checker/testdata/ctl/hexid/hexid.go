// Package hexid is the positive control of R19l: an identity token printed by a formatter that drops leading zeros.
package hexid

import (
	"crypto/sha1"
	"encoding/binary"
	"strconv"
)

func Token(blob []byte) (string, error) {
	sum := sha1.Sum(blob)
	return strconv.FormatUint(binary.LittleEndian.Uint64(sum[12:]), 16), nil
}
