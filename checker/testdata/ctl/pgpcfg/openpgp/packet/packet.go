// Package packet stands in for the OpenPGP library's packet package in the R06i control.
package packet

type Config struct {
	DefaultHash int
	Level       int
}
