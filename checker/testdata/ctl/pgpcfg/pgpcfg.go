// Package pgpcfg is a positive control for R06i: Sign sets DefaultHash on one branch only.
package pgpcfg

import "ctl/pgpcfg/openpgp/packet"

func use(*packet.Config) {}

func Sign(hash int, clear bool) {
	cfg := &packet.Config{Level: 1}
	if !clear {
		cfg.DefaultHash = hash
	}
	use(cfg)
}

// Fine sets it in the literal; it must stay silent.
func Fine(hash int) {
	cfg := &packet.Config{DefaultHash: hash}
	use(cfg)
}
