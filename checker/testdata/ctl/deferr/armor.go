package deferr

import (
	"compress/gzip"
	"io"
)

// Armor is the positive control of R13f: the encoder's Close is only deferred, so the error of
// writing its trailer is never seen.
func Armor(w io.Writer, body []byte) error {
	zw := gzip.NewWriter(w)
	defer zw.Close()
	_, err := zw.Write(body)
	return err
}

// ArmorChecked is the negative twin.
func ArmorChecked(w io.Writer, body []byte) error {
	zw := gzip.NewWriter(w)
	if _, err := zw.Write(body); err != nil {
		return err
	}
	return zw.Close()
}
