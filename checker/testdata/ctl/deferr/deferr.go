// Package deferr is the positive control of R09i: a deferred Close whose result replaces
// the error of the copy.
package deferr

import "io"

func Copy(dst io.Writer, src io.Reader, c io.Closer) (err error) {
	defer func() {
		err = c.Close()
	}()
	_, err = io.Copy(dst, src)
	return err
}
