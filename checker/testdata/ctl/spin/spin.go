// Package spin is a positive control: a select loop whose close case only leaves the
// select, so the goroutine spins once the channel is closed.
package spin

import "time"

type S struct {
	Closed  <-chan bool
	closeCh chan<- bool
}

func New() *S {
	ch := make(chan bool)
	return &S{Closed: ch, closeCh: ch}
}

func (s *S) Close() {
	if s.closeCh != nil {
		close(s.closeCh)
		s.closeCh = nil
	}
}

func (s *S) Loop() {
	t := time.NewTimer(0)
	for {
		select {
		case <-t.C:
			t.Reset(time.Second)
		case <-s.Closed:
			break
		}
	}
}

// LoopOK must stay silent.
func (s *S) LoopOK() {
	t := time.NewTimer(0)
	for {
		select {
		case <-t.C:
			t.Reset(time.Second)
		case <-s.Closed:
			return
		}
	}
}
