// Package etree is the positive control of R19d's read-settings rule: a parser
// configuration that keeps CDATA sections.
package etree

type ReadSettings struct {
	PreserveCData          bool
	PreserveDuplicateAttrs bool
}

type Document struct {
	ReadSettings ReadSettings
}

func Load() *Document {
	d := &Document{}
	d.ReadSettings.PreserveCData = true
	return d
}
