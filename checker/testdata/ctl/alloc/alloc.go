// Package alloc is a positive control: an allocation sized by a 32-bit header field that
// nothing compares against anything.
package alloc

import (
	"bytes"
	"encoding/binary"
	"errors"
	"io"
)

type Header struct {
	Magic uint32
	Size  uint32
	Count uint16
}

func Parse(blob []byte) ([]byte, error) {
	var h Header
	r := bytes.NewReader(blob)
	if err := binary.Read(r, binary.LittleEndian, &h); err != nil {
		return nil, err
	}
	buf := make([]byte, h.Size)
	_, err := io.ReadFull(r, buf)
	return buf, err
}

// ParseOK bounds the size by the input length and must stay silent; so must the
// 16-bit count.
func ParseOK(blob []byte) ([]byte, []uint32, error) {
	var h Header
	r := bytes.NewReader(blob)
	if err := binary.Read(r, binary.LittleEndian, &h); err != nil {
		return nil, nil, err
	}
	if int(h.Size) > r.Len() {
		return nil, nil, errors.New("truncated")
	}
	buf := make([]byte, h.Size)
	_, err := io.ReadFull(r, buf)
	return buf, make([]uint32, h.Count), err
}
