// Package goshare is a positive control: a map handed to a goroutine is used by the spawner before the join.
package goshare

type rec struct{ attrs map[string]int }

func publish(r *rec) error { r.attrs["sealed"] = 1; return nil }

// Bad starts publishing in the background and keeps reading the record.
func Bad(r *rec) (int, error) {
	done := make(chan error, 1)
	go func() { done <- publish(r) }()
	n := r.attrs["size"]
	return n, <-done
}

// Good joins first.
func Good(r *rec) (int, error) {
	done := make(chan error, 1)
	go func() { done <- publish(r) }()
	err := <-done
	return r.attrs["size"], err
}
