// Package inplace is the positive control of R16n: a "filter" that shifts the caller's elements.
package inplace

import "slices"

type Raw []int

func (r Raw) Valid() []int {
	var ok []int
	r = slices.DeleteFunc(r, func(v int) bool {
		if v < 0 {
			return true
		}
		ok = append(ok, v)
		return false
	})
	return ok
}

// ValidCopy is the negative twin: the routine works on a copy.
func (r Raw) ValidCopy() []int {
	c := slices.Clone(r)
	c = slices.DeleteFunc(c, func(v int) bool { return v < 0 })
	return c
}
