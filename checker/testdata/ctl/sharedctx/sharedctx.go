// Package sharedctx is the positive control of R14g: a log context created once and extended
// by every request.
package sharedctx

import "net/http"

type Context struct{ buf []byte }

func (c Context) Str(k, v string) Context {
	c.buf = append(c.buf, k...)
	c.buf = append(c.buf, v...)
	return c
}

func Middleware(next http.Handler) http.Handler {
	base := Context{buf: make([]byte, 0, 64)}
	return http.HandlerFunc(func(w http.ResponseWriter, r *http.Request) {
		lc := base.Str("ip", r.RemoteAddr)
		_ = lc
		next.ServeHTTP(w, r)
	})
}
