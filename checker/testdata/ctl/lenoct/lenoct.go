// Package lenoct is the positive control of R03g: a one-octet length field for a name that was
// trimmed by characters, not bytes.
package lenoct

import "bytes"

func Put(buf *bytes.Buffer, name string) {
	if r := []rune(name); len(r) > 255 {
		name = string(r[:255])
	}
	buf.WriteByte(byte(len(name)))
	buf.WriteString(name)
}
