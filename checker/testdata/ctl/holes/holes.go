// Package holes is a positive control: a pre-sized slice of pointers with unfilled entries is returned.
package holes

type Item struct{ V int }

func parse(b byte) (*Item, bool) { return &Item{int(b)}, b != 0 }

// Parse leaves nil entries behind for skipped inputs.
func Parse(raw []byte) []*Item {
	out := make([]*Item, len(raw))
	n := 0
	for _, b := range raw {
		it, ok := parse(b)
		if !ok {
			continue
		}
		out[n] = it
		n++
	}
	if n == 0 {
		return out
	}
	return out[:n]
}
