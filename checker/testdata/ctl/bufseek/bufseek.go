// Package bufseek is the positive control of R12n: a file read through a bufio.Reader and skipped
// forward with a relative Seek on the file itself.
package bufseek

import (
	"bufio"
	"io"
	"os"
)

func Skip(f *os.File, w io.Writer, keep, drop int64) error {
	in := bufio.NewReader(f)
	if _, err := io.CopyN(w, in, keep); err != nil {
		return err
	}
	if _, err := f.Seek(drop, io.SeekCurrent); err != nil {
		return err
	}
	in.Reset(f)
	_, err := io.Copy(w, in)
	return err
}

// SkipRight is the negative twin: the offset accounts for what is still buffered.
func SkipRight(f *os.File, w io.Writer, keep, drop int64) error {
	in := bufio.NewReader(f)
	if _, err := io.CopyN(w, in, keep); err != nil {
		return err
	}
	if _, err := f.Seek(drop-int64(in.Buffered()), io.SeekCurrent); err != nil {
		return err
	}
	in.Reset(f)
	_, err := io.Copy(w, in)
	return err
}

// CopyPart is the positive control of R13g: a bounded copy that does not notice a short source.
func CopyPart(w io.Writer, f *os.File, n int64) error {
	_, err := io.Copy(w, io.LimitReader(f, n))
	return err
}
