// Package idxin is the positive control of R11j: a table indexed by a header field that is
// compared with a sentinel only.
package idxin

import (
	"bytes"
	"encoding/binary"
	"encoding/xml"
)

type header struct {
	Next int32
	Size uint32
}

func Parse(blob []byte, table []int32) int32 {
	var h header
	if err := binary.Read(bytes.NewReader(blob), binary.LittleEndian, &h); err != nil {
		return 0
	}
	if h.Next != -1 {
		return table[h.Next]
	}
	return 0
}

type file struct {
	Name  string  `xml:",attr"`
	Block []block `xml:"Block"`
}

type block struct {
	Size uint64 `xml:",attr"`
}

type blockMap struct {
	File []file
}

// Copy is the positive control of R11k: sizes are copied block by block from a decoded map into
// one that was computed, without comparing how many blocks each has.
func Copy(blob []byte, mine *blockMap) error {
	var orig blockMap
	if err := xml.Unmarshal(blob, &orig); err != nil {
		return err
	}
	for i, f := range orig.File {
		if i >= len(mine.File) {
			break
		}
		for j, b := range f.Block {
			mine.File[i].Block[j].Size = b.Size
		}
	}
	return nil
}

func content(raw []byte) ([]byte, error) {
	if len(raw) < 2 {
		// nothing there: not an error
		return nil, nil
	}
	if raw[0] != 0x30 {
		return nil, xml.UnmarshalError("not a sequence")
	}
	return raw[2:], nil
}

// Tag is the positive control of R11l: the error is tested, the length is not.
func Tag(raw []byte) (byte, error) {
	body, err := content(raw)
	if err != nil {
		return 0, err
	}
	return body[0], nil
}

// First is the positive control of R11m: the first block of the first file of a decoded map.
func First(blob []byte) (uint64, error) {
	var m blockMap
	if err := xml.Unmarshal(blob, &m); err != nil {
		return 0, err
	}
	return m.File[0].Block[0].Size, nil
}

type info struct {
	Arch string
}

func parseInfo(raw []byte) (*info, error) {
	if len(raw) == 0 {
		return nil, errEmpty
	}
	return &info{Arch: string(raw)}, nil
}

var errEmpty = xml.UnmarshalError("empty")

// Arch is the positive control of R11p: the result of a call that failed is used before the error
// is looked at.
func Arch(raw []byte, out chan<- *info, errs chan<- error) {
	go func() {
		i, err := parseInfo(raw)
		if i.Arch == "" {
			i.Arch = "all"
		}
		out <- i
		errs <- err
	}()
}

// Chomp is the positive control of R11q: two bytes cut off the end of a line nobody measured.
func Chomp(line string) string {
	return line[:len(line)-2]
}

// Place is the positive control of R16k: the count copy returns stands in for the length of the source.
func Place(area []byte, parts ...[]byte) (int, bool) {
	used := 0
	for _, p := range parts[:1] {
		used += len(p)
	}
	used = copy(area, parts[0])
	return used, used <= len(area)
}
