// Package idxin is the positive control of R11j: a table indexed by a header field that is
// compared with a sentinel only.
package idxin

import (
	"bytes"
	"encoding/binary"
)

type header struct {
	Next int32
	Size uint32
}

func Parse(blob []byte, table []int32) int32 {
	var h header
	if err := binary.Read(bytes.NewReader(blob), binary.LittleEndian, &h); err != nil {
		return 0
	}
	if h.Next != -1 {
		return table[h.Next]
	}
	return 0
}
