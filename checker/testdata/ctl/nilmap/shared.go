package nilmap

var defaults = map[string]string{"xml": "text/xml"}

func table(all bool) map[string]string {
	if all {
		return defaults
	}
	out := map[string]string{}
	for k, v := range defaults {
		out[k] = v
	}
	return out
}

// Merge is the positive control of R03m: the helper may hand out the package-level table itself,
// and the caller stores into what it got.
func Merge(own map[string]string, all bool) map[string]string {
	t := table(all)
	for k, v := range own {
		t[k] = v
	}
	return t
}
