// Package nilmap is a positive control: a deliberately broken alias resolver that
// dereferences the result of a missed map lookup (the shape of the dangling-alias crash).
package nilmap

import (
	"errors"
	"fmt"
)

type K struct {
	Alias string
	Token string
}

type C struct{ Keys map[string]*K }

func (c *C) Get(name string) (*K, error) {
	k, ok := c.Keys[name]
	if !ok {
		return nil, errors.New("not found")
	} else if k.Alias != "" {
		k, ok = c.Keys[k.Alias]
		if !ok {
			return nil, fmt.Errorf("alias %q points to undefined key %q", name, k.Alias)
		}
	}
	return k, nil
}

// GetOK is the repaired shape and must stay silent.
func (c *C) GetOK(name string) (*K, error) {
	k, ok := c.Keys[name]
	if !ok {
		return nil, errors.New("not found")
	} else if k.Alias != "" {
		alias := k.Alias
		k, ok = c.Keys[alias]
		if !ok {
			return nil, fmt.Errorf("alias %q points to undefined key %q", name, alias)
		}
	}
	return k, nil
}
