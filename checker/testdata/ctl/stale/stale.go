// Package stale is the positive control of R01k: a table header taken before the call that may
// grow the table, written through afterwards.
package stale

type Doc struct {
	Table []int
}

func (d *Doc) grow(n int) []int {
	var free []int
	for i, v := range d.Table {
		if v == 0 {
			free = append(free, i)
		}
	}
	if len(free) >= n {
		return free[:n]
	}
	old := len(d.Table)
	d.Table = append(d.Table, make([]int, n)...)
	for i := old; i < len(d.Table); i++ {
		free = append(free, i)
	}
	return free[:n]
}

func (d *Doc) Add(n int) {
	t := d.Table
	for _, i := range d.grow(n) {
		t[i] = 1
	}
}

// AddFresh is the negative twin: the header is loaded after the call.
func (d *Doc) AddFresh(n int) {
	free := d.grow(n)
	t := d.Table
	for _, i := range free {
		t[i] = 1
	}
}
