// Package lockleak is a positive control for R14n: Get returns early with the mutex held.
package lockleak

import "sync"

type S struct {
	mu sync.Mutex
	n  int
}

func (s *S) Get(limit int) int {
	s.mu.Lock()
	if s.n > limit {
		return -1
	}
	n := s.n
	s.mu.Unlock()
	return n
}

// Fine releases on both paths; it must stay silent.
func (s *S) Fine(limit int) int {
	s.mu.Lock()
	if s.n > limit {
		s.mu.Unlock()
		return -1
	}
	n := s.n
	s.mu.Unlock()
	return n
}
