// Package twice is a positive control: Close pools the writer it keeps holding.
package twice

import (
	"bytes"
	"sync"
)

var pool = sync.Pool{New: func() interface{} { return new(bytes.Buffer) }}

type w struct{ buf *bytes.Buffer }

func newW() w { return w{buf: pool.Get().(*bytes.Buffer)} }

// Close can be called twice and then pools the same buffer twice.
func (x w) Close() error {
	pool.Put(x.buf)
	return nil
}
