// Package pool is a positive control: an object is used after being returned to a sync.Pool.
package pool

import (
	"bytes"
	"sync"
)

var bufs = sync.Pool{New: func() interface{} { return new(bytes.Buffer) }}

// Bad gives the buffer back and then still writes through it.
func Bad(data []byte) int {
	b := bufs.Get().(*bytes.Buffer)
	b.Reset()
	bufs.Put(b)
	b.Write(data)
	return b.Len()
}

// Good finishes with the buffer first.
func Good(data []byte) int {
	b := bufs.Get().(*bytes.Buffer)
	b.Reset()
	b.Write(data)
	n := b.Len()
	bufs.Put(b)
	return n
}
