// Package trimdig is the positive control of R02k: a digest over lines whose trailing blanks were cut.
package trimdig

import (
	"bufio"
	"bytes"
	"crypto/sha256"
	"io"
)

func canonical(w io.Writer, r io.Reader) error {
	br := bufio.NewReader(r)
	for {
		line, err := br.ReadBytes('\n')
		if len(line) != 0 {
			if _, err := w.Write(bytes.TrimRight(line, " \t\r\n")); err != nil {
				return err
			}
		}
		if err != nil {
			return nil
		}
	}
}

func Sum(r io.Reader) []byte {
	d := sha256.New()
	_ = canonical(d, r)
	return d.Sum(nil)
}
