package main

// C08, rules added after the second seeding round: R08e (the MSI extended digest written next
// to the signature is computed for this signing), R08f (errors IsSigned tells apart by type
// reach it unwrapped), R08g (an in-place patch cuts the file to the end of the last patch).

import (
	"fmt"
	"go/constant"
	"go/token"
	"sort"
	"strings"

	"golang.org/x/tools/go/ssa"
)

func c08Round2(c *Ctx) {
	p := c.P
	c.Rule("R08e", "the extended MSI digest stored with the signature is PrehashMSI of this input with the requested digest, or absent", 1)
	c.Rule("R08f", "an error that IsSigned recognises by its dynamic type is never wrapped between where it is made and the verifier's return", 2)
	c.Rule("R08g", "an in-place patch truncates the file to the end of its last patch, not to a maximum that includes the old size", 1)

	for _, f := range msiExsigOrigin(p) {
		c.Check(f.OK, "R08e", f.Key, f.Pos, f.Detail, f.Detail)
	}
	for _, f := range typedErrorsUnwrapped(p) {
		c.Check(f.OK, "R08f", f.Key, f.Pos, "not wrapped", f.Detail)
	}
	c.runControl("R08f wrapped typed error control (ctl/wraperr.Verify)", "wraperr.", typedErrorsUnwrapped)
	for _, f := range truncateNotMax(p) {
		c.Check(f.OK, "R08g", f.Key, f.Pos, "assigned, not maximised", f.Detail)
	}
	c.Rule("R08h", "a patch is applied in place only when every patch but the last keeps its size and the last one ends at the end of the file (shared with C12 R12e)", 5)
	c12RuleInPlace = "R08h"
	c12InPlace(c)
	c12RuleInPlace = "R12e"
	c.Rule("R08k", "the signature stream of an MSI is stored in the table it is later looked up and freed in: one mini-stream cutoff predicate at every site (shared with C18 R18e)", 5)
	c18RuleCutoff = "R08k"
	c18Cutoff(c, p.pkgFuncs("lib/comdoc"))
	c18RuleCutoff = "R18e"
	c.Rule("R08j", "the MSI upload tar names the signature streams exactly as the tar digest skips them: msiDecodeName passes their code units through", 1)
	for _, f := range msiNamesPassControlChars(p, nil) {
		c.Check(f.OK, "R08j", f.Key, f.Pos, "", f.Detail)
	}
	c.Rule("R08i", "what a new Apple code signature requires of its signer comes from the new certificate or the caller, never from the signature being replaced", 1)
	if fn := p.Func("lib/fruit/csblob.(*SignatureParams).DefaultsFromSignature"); fn == nil {
		c.Undecided("R08i", "(*SignatureParams).DefaultsFromSignature", "-", "function not found")
	} else {
		c.Analysed(p.FName(fn))
		bad := ""
		copied := 0
		for _, b := range fn.Blocks {
			for _, in := range b.Instrs {
				st, ok := in.(*ssa.Store)
				if !ok {
					continue
				}
				tn, f, _ := p.fieldAddr(st.Addr)
				if !strings.HasSuffix(tn, "csblob.SignatureParams") {
					continue
				}
				fromOld := dependsOn(st.Val, func(x ssa.Value) bool {
					t2, _, _ := p.fieldLoad(x)
					return strings.HasSuffix(t2, "csblob.SigBlob") || strings.HasSuffix(t2, "csblob.CodeDirectory") || strings.HasSuffix(t2, "csblob.CodeDirectoryHeader")
				})
				if !fromOld {
					continue
				}
				copied++
				if f == "Requirements" {
					bad = p.Pos(st.Pos())
				}
			}
		}
		c.Check(bad == "", "R08i", "DefaultsFromSignature leaves the requirements to the new signer", p.Pos(fn.Pos()), fmt.Sprintf("%d fields taken over from the old signature, Requirements not among them", copied),
			"the designated requirement of the old signature is copied into the new signing parameters ("+bad+"): re-signing with another certificate produces a signature whose requirement still names the previous signer, which macOS rejects while relic's verifier, which does not evaluate requirements, accepts it")
	}
}

// ------------------------------------------------------------------------------ R08e

func msiExsigOrigin(p *Prog) (out []gFinding) {
	// stores into any field that is later handed to InsertMSISignature as the extended digest
	fieldKeys := map[string]bool{}
	var direct []ssa.Value
	n := 0
	for _, fn := range p.Funcs {
		for _, ci := range p.callsIn(fn, "lib/authenticode.InsertMSISignature") {
			args := ci.Common().Args
			if len(args) < 3 {
				continue
			}
			n++
			if tn, f, _ := p.fieldLoad(args[2]); tn != "" {
				fieldKeys[strings.TrimPrefix(tn, "*")+"."+f] = true
			} else {
				direct = append(direct, args[2])
			}
		}
	}
	if n == 0 {
		return []gFinding{{Key: "InsertMSISignature callers", Pos: "-", OK: false, Detail: "no caller of InsertMSISignature found"}}
	}
	type src struct {
		v  ssa.Value
		fn *ssa.Function
	}
	var srcs []src
	for _, v := range direct {
		srcs = append(srcs, src{v, nil})
	}
	for _, fn := range p.Funcs {
		for _, b := range fn.Blocks {
			for _, in := range b.Instrs {
				st, ok := in.(*ssa.Store)
				if !ok {
					continue
				}
				if tn, f, _ := p.fieldAddr(st.Addr); tn != "" && fieldKeys[strings.TrimPrefix(tn, "*")+"."+f] {
					srcs = append(srcs, src{st.Val, fn})
				}
			}
		}
	}
	k := 0
	for _, s := range srcs {
		// leaves of the value
		seen := map[ssa.Value]bool{}
		var leaves []ssa.Value
		var walk func(v ssa.Value)
		walk = func(v ssa.Value) {
			v = stripConv(v)
			if v == nil || seen[v] {
				return
			}
			seen[v] = true
			switch x := v.(type) {
			case *ssa.Phi:
				for _, e := range x.Edges {
					walk(e)
				}
			case *ssa.UnOp:
				if a, ok := x.X.(*ssa.Alloc); ok && x.Op == token.MUL {
					for _, ref := range *a.Referrers() {
						if st, ok := ref.(*ssa.Store); ok && st.Addr == a {
							walk(st.Val)
						}
					}
					return
				}
				leaves = append(leaves, v)
			default:
				leaves = append(leaves, v)
			}
		}
		walk(s.v)
		for _, l := range leaves {
			k++
			where := "-"
			if in, ok := l.(ssa.Instruction); ok {
				where = p.Pos(in.Pos())
			}
			key := fmt.Sprintf("extended digest source#%d", k)
			if s.fn != nil {
				key = fmt.Sprintf("%s extended digest source#%d", p.FName(s.fn), k)
			}
			if cst, ok := l.(*ssa.Const); ok && cst.IsNil() {
				out = append(out, gFinding{Key: key, Pos: where, OK: true, Detail: "nil: no extended signature"})
				continue
			}
			if _, ok := l.(*ssa.Parameter); ok {
				out = append(out, gFinding{Key: key, Pos: where, OK: true, Detail: "a parameter (followed at the call sites)"})
				continue
			}
			okSrc := false
			if ex, ok := l.(*ssa.Extract); ok && ex.Index == 0 {
				if call, ok := ex.Tuple.(*ssa.Call); ok && p.calleeName(call.Common()) == "lib/authenticode.PrehashMSI" && len(call.Call.Args) >= 2 {
					okSrc = dependsOn(call.Call.Args[1], func(x ssa.Value) bool {
						tn, f, _ := p.fieldLoad(x)
						return strings.HasSuffix(tn, "signers.SignOpts") && f == "Hash"
					})
				}
			}
			out = append(out, gFinding{Key: key, Pos: where, OK: okSrc,
				Detail: "the extended digest written into MsiDigitalSignatureEx comes from " + describeVal(p, l) + ", not from PrehashMSI(this file, the requested digest): the stored value then belongs to an earlier signing (another digest algorithm, other metadata) and the verifier, which recomputes it with the digest of the new signature, reports a mismatch"})
		}
	}
	return out
}

// ------------------------------------------------------------------------------ R08f

// typedErrorsUnwrapped: IsSigned (and other callers) tell NotSignedError and ErrNoKey apart with a
// type switch, which does not look through wrapping. A value that may be one of them must not go
// through fmt.Errorf("%w"), errors.Join or a module helper that does so.
func typedErrorsUnwrapped(p *Prog) (out []gFinding) {
	isTyped := func(s string) string {
		s = strings.TrimPrefix(s, "*")
		switch {
		case strings.HasSuffix(s, "sigerrors.NotSignedError"):
			return "NotSignedError"
		case strings.HasSuffix(s, "pgptools.ErrNoKey"):
			return "ErrNoKey"
		case strings.HasSuffix(s, "wraperr.NoKey"):
			return "NoKey"
		}
		return ""
	}
	// is the discrimination done by type switch at all?
	usesSwitch := false
	for _, fn := range p.Funcs {
		for _, b := range fn.Blocks {
			for _, in := range b.Instrs {
				if ta, ok := in.(*ssa.TypeAssert); ok && isTyped(ta.AssertedType.String()) != "" && isErrorType(ta.X.Type()) {
					usesSwitch = true
				}
			}
		}
	}
	if !usesSwitch {
		return nil
	}
	// carry: values that may be a typed error; mayRet: functions whose error result may be one
	mayRet := map[*ssa.Function]string{}
	carryParam := map[*ssa.Parameter]string{}
	var carries func(v ssa.Value, seen map[ssa.Value]bool) string
	carries = func(v ssa.Value, seen map[ssa.Value]bool) string {
		if v == nil || seen[v] {
			return ""
		}
		seen[v] = true
		switch x := v.(type) {
		case *ssa.MakeInterface:
			// pkcs7's own NotSignedError means "SignedData without SignerInfo", not "the container carries
			// no signature" (same exception as R08a)
			if pk := pkgOf(x.Parent()); pk != nil && p.Rel(pk.Path()) == "lib/pkcs7" {
				return ""
			}
			return isTyped(x.X.Type().String())
		case *ssa.Phi:
			for _, e := range x.Edges {
				if t := carries(e, seen); t != "" {
					return t
				}
			}
		case *ssa.Extract:
			if call, ok := x.Tuple.(*ssa.Call); ok {
				if sc := call.Common().StaticCallee(); sc != nil && isErrorType(x.Type()) {
					return mayRet[sc]
				}
			}
		case *ssa.Call:
			if sc := x.Common().StaticCallee(); sc != nil && isErrorType(x.Type()) {
				return mayRet[sc]
			}
		case *ssa.Parameter:
			return carryParam[x]
		case *ssa.UnOp:
			if a, ok := x.X.(*ssa.Alloc); ok && x.Op == token.MUL {
				for _, ref := range *a.Referrers() {
					if st, ok := ref.(*ssa.Store); ok && st.Addr == a {
						if t := carries(st.Val, seen); t != "" {
							return t
						}
					}
				}
			}
		case *ssa.ChangeInterface:
			return carries(x.X, seen)
		}
		return ""
	}
	for changed, round := true, 0; changed && round < 8; round++ {
		changed = false
		for _, fn := range p.Funcs {
			ei := errResultIndex(fn.Signature)
			if ei >= 0 && mayRet[fn] == "" {
				for _, r := range returnsOf(fn) {
					if ei < len(r.Results) {
						if t := carries(r.Results[ei], map[ssa.Value]bool{}); t != "" {
							mayRet[fn] = t
							changed = true
						}
					}
				}
			}
			for _, b := range fn.Blocks {
				for _, in := range b.Instrs {
					ci, ok := in.(ssa.CallInstruction)
					if !ok {
						continue
					}
					sc := ci.Common().StaticCallee()
					if sc == nil || len(sc.Blocks) == 0 || !p.InModule(pkgOf(sc)) {
						continue
					}
					args := ci.Common().Args
					for k, a := range args {
						if k >= len(sc.Params) || !isErrorType(a.Type()) {
							continue
						}
						if t := carries(a, map[ssa.Value]bool{}); t != "" && carryParam[sc.Params[k]] == "" {
							carryParam[sc.Params[k]] = t
							changed = true
						}
					}
				}
			}
		}
	}
	// wrapping sites
	type site struct {
		fn  *ssa.Function
		in  ssa.Instruction
		typ string
	}
	var sites []site
	for _, fn := range p.Funcs {
		for _, b := range fn.Blocks {
			for _, in := range b.Instrs {
				call, ok := in.(*ssa.Call)
				if !ok {
					continue
				}
				name := p.calleeName(call.Common())
				var wrapped []ssa.Value
				switch name {
				case "fmt.Errorf":
					if k, ok := call.Call.Args[0].(*ssa.Const); !ok || k.Value == nil || k.Value.Kind() != constant.String || !strings.Contains(constant.StringVal(k.Value), "%w") {
						continue
					}
					// variadic arguments live in an array: collect the error-typed stores into it
					if len(call.Call.Args) > 1 {
						if sl, ok := call.Call.Args[1].(*ssa.Slice); ok {
							if arr, ok := sl.X.(*ssa.Alloc); ok {
								for _, ref := range *arr.Referrers() {
									ia, ok := ref.(*ssa.IndexAddr)
									if !ok {
										continue
									}
									for _, r2 := range *ia.Referrers() {
										if st, ok := r2.(*ssa.Store); ok {
											if mi, ok := st.Val.(*ssa.MakeInterface); ok && isErrorType(mi.X.Type()) {
												wrapped = append(wrapped, mi.X)
											} else if ci2, ok := st.Val.(*ssa.ChangeInterface); ok {
												wrapped = append(wrapped, ci2.X)
											}
										}
									}
								}
							}
						}
					}
				case "errors.Join":
					continue
				default:
					continue
				}
				for _, w := range wrapped {
					if t := carries(w, map[ssa.Value]bool{}); t != "" {
						// a type test of the same value in the function: the typed case is handled apart
						handled := false
						for _, b2 := range fn.Blocks {
							for _, in2 := range b2.Instrs {
								if ta, ok := in2.(*ssa.TypeAssert); ok && ta.X == w && isTyped(ta.AssertedType.String()) == t {
									handled = true
								}
							}
						}
						if !handled {
							sites = append(sites, site{fn, in, t})
						}
					}
				}
			}
		}
	}
	// only code a verifier behind the is-signed probe can run: verifiers of signers that can also sign
	probe := map[*ssa.Function]bool{}
	{
		hasSign := map[string]bool{}
		for _, name := range p.registeredSignerFuncs("Sign") {
			hasSign[name] = true
		}
		var roots []*ssa.Function
		for _, field := range []string{"Verify", "VerifyStream"} {
			for f, name := range p.registeredSignerFuncs(field) {
				if hasSign[name] {
					roots = append(roots, f)
				}
			}
		}
		if len(roots) > 0 {
			probe = p.moduleReachOpt(roots, false)
		} else {
			// no registry (control module): everything counts
			for _, fn := range p.Funcs {
				probe[fn] = true
			}
		}
	}
	var kept []site
	for _, s := range sites {
		if !probe[s.fn] {
			continue
		}
		if p.wrapOnlyWithSibling(s.fn, s.in, carries) {
			continue
		}
		kept = append(kept, s)
	}
	sites = kept
	sort.Slice(sites, func(i, j int) bool { return p.Pos(sites[i].in.Pos()) < p.Pos(sites[j].in.Pos()) })
	for i, s := range sites {
		if why, ok := c08WrapExceptions[p.FName(s.fn)]; ok {
			out = append(out, gFinding{Key: fmt.Sprintf("%s wraps a possible %s (exception: %s)", p.FName(s.fn), s.typ, why), Pos: p.Pos(s.in.Pos()), OK: true})
			continue
		}
		out = append(out, gFinding{Key: fmt.Sprintf("%s wraps a possible %s#%d", p.FName(s.fn), s.typ, i+1), Pos: p.Pos(s.in.Pos()), OK: false,
			Detail: "an error that may be a " + s.typ + " is wrapped with %w here; Signer.IsSigned (and the callers that print a hint) recognise it with a type switch, which does not unwrap: the is-signed probe then reports an error instead of its verdict"})
	}
	// the discharged instances: functions that may return a typed error and do not wrap it
	var names []string
	for fn, t := range mayRet {
		names = append(names, p.FName(fn)+" may return "+t)
	}
	sort.Strings(names)
	bad := map[string]bool{}
	for _, s := range sites {
		if _, ok := c08WrapExceptions[p.FName(s.fn)]; !ok {
			bad[p.FName(s.fn)] = true
		}
	}
	for _, nme := range names {
		fnName := strings.SplitN(nme, " may return ", 2)[0]
		if !bad[fnName] {
			out = append(out, gFinding{Key: nme + " and hands it on as it is", Pos: "-", OK: true})
		}
	}
	return out
}

// ------------------------------------------------------------------------------ R08g

// truncateNotMax: the size lib/binpatch's in-place path truncates the file to must be able to be
// smaller than the old size: a signature shorter than the one it replaces has to take the tail
// of the old one away. A running maximum seeded with the old size cannot shrink.
func truncateNotMax(p *Prog) (out []gFinding) {
	site := p.applyInPlaceSite()
	if site == nil {
		return []gFinding{{Key: "(*PatchSet).Apply", Pos: "-", OK: false, Detail: "function not found"}}
	}
	fn := site.ap
	n := 0
	for _, tr := range site.truncs {
		n++
		args := tr.call.Common().Args
		size := args[len(args)-1]
		key := fmt.Sprintf("%s Truncate#%d", p.FName(fn), n)
		isMax := ""
		// every phi the size passes through, in whichever function of Apply's family it lives
		for _, fv := range site.expand(fnVal{tr.fn, size}) {
			ph, ok := fv.v.(*ssa.Phi)
			if !ok {
				continue
			}
			if at := phiIsMaximum(p, fv.fn, ph); at != "" {
				isMax = at
			}
		}
		out = append(out, gFinding{Key: key, Pos: p.Pos(tr.call.Pos()), OK: isMax == "",
			Detail: "the size the file is truncated to is only replaced when the new end is larger (comparison at " + isMax + "): the in-place path can grow the file but never shrink it, so re-signing with a shorter signature leaves the tail of the old one behind (PE: 'trailing garbage after existing certificate')"})
	}
	if n == 0 {
		out = append(out, gFinding{Key: p.FName(fn) + " truncates", Pos: p.Pos(fn.Pos()), OK: false, Detail: "no Truncate call found in the in-place path"})
	}
	return out
}

// phiIsMaximum: ph is a running maximum: one of its incoming values e arrives only over an edge
// guarded by `e > ph` / `ph < e` (or >=, <=). Returns the position of the comparison, or "".
func phiIsMaximum(p *Prog, fn *ssa.Function, ph *ssa.Phi) string {
	isMax := ""
	for _, blk := range fn.Blocks {
		ifi, ok := blk.Instrs[len(blk.Instrs)-1].(*ssa.If)
		if !ok {
			continue
		}
		for _, bo := range condCompares(ifi.Cond) {
			switch bo.Op {
			case token.GTR, token.GEQ, token.LSS, token.LEQ:
			default:
				continue
			}
			x, y := stripConv(bo.X), stripConv(bo.Y)
			for _, e := range ph.Edges {
				e = stripConv(e)
				if _, isPhi := e.(*ssa.Phi); isPhi {
					continue
				}
				involvesPhi := func(o ssa.Value) bool {
					if o == ssa.Value(ph) {
						return true
					}
					if op, ok := o.(*ssa.Phi); ok {
						for _, oe := range op.Edges {
							if stripConv(oe) == ssa.Value(ph) {
								return true
							}
						}
						for _, pe := range ph.Edges {
							if stripConv(pe) == o {
								return true
							}
						}
					}
					return false
				}
				if (x == e && involvesPhi(y)) || (y == e && involvesPhi(x)) {
					isMax = p.Pos(ifi.Pos())
					if isMax == "-" || isMax == "" {
						isMax = p.Pos(lastPos(blk))
					}
				}
			}
		}
	}
	return isMax
}

// c08WrapExceptions: wrapping sites that cannot change the probe's verdict, each confirmed by reading.
var c08WrapExceptions = map[string]string{
	"lib/signappx.verifyBundle": "runs only after the bundle's own signature was read and verified; a bundled package without a signature makes a signed bundle invalid, which is an error and not the verdict 'unsigned'",
}

// wrapOnlyWithSibling: the wrap is guarded by `v != nil` on a pointer parameter v, the wrapped error
// is a parameter too, both come from the results of one call at every call site, and every return
// of that callee that carries a typed error has nil at v's position. Then the typed error never
// takes the wrapping branch.
func (p *Prog) wrapOnlyWithSibling(fn *ssa.Function, wrap ssa.Instruction, carries func(ssa.Value, map[ssa.Value]bool) string) bool {
	var guard *ssa.Parameter
	for _, b := range fn.Blocks {
		if b == wrap.Block() || !b.Dominates(wrap.Block()) {
			continue
		}
		ifi, ok := b.Instrs[len(b.Instrs)-1].(*ssa.If)
		if !ok {
			continue
		}
		bo, ok := ifi.Cond.(*ssa.BinOp)
		if !ok || bo.Op != token.NEQ {
			continue
		}
		if k, isK := bo.Y.(*ssa.Const); isK && k.IsNil() {
			if pa, isP := bo.X.(*ssa.Parameter); isP && b.Succs[0].Dominates(wrap.Block()) {
				guard = pa
			}
		}
	}
	if guard == nil {
		return false
	}
	kv := -1
	for k, pa := range fn.Params {
		if pa == guard {
			kv = k
		}
	}
	var errIdx []int
	for k, pa := range fn.Params {
		if isErrorType(pa.Type()) {
			errIdx = append(errIdx, k)
		}
	}
	if kv < 0 || len(errIdx) != 1 {
		return false
	}
	ke := errIdx[0]
	sites := 0
	for _, caller := range p.Funcs {
		for _, ci := range p.callsIn(caller, p.FName(fn)) {
			sites++
			args := ci.Common().Args
			if kv >= len(args) || ke >= len(args) {
				return false
			}
			ev, ok1 := args[kv].(*ssa.Extract)
			ee, ok2 := args[ke].(*ssa.Extract)
			if !ok1 || !ok2 || ev.Tuple != ee.Tuple {
				return false
			}
			call, ok := ev.Tuple.(*ssa.Call)
			if !ok {
				return false
			}
			g := call.Common().StaticCallee()
			if g == nil || len(g.Blocks) == 0 {
				return false
			}
			if !siblingNilWhenTyped(g, ev.Index, ee.Index, carries, 0) {
				return false
			}
		}
	}
	return sites > 0
}

// siblingNilWhenTyped: every return of g whose result ie may be a typed error has nil at result iv
// (directly, or because both results are handed up from one inner call for which the same holds).
func siblingNilWhenTyped(g *ssa.Function, iv, ie int, carries func(ssa.Value, map[ssa.Value]bool) string, depth int) bool {
	if depth > 3 {
		return false
	}
	for _, r := range returnsOf(g) {
		if ie >= len(r.Results) || iv >= len(r.Results) {
			return false
		}
		if carries(r.Results[ie], map[ssa.Value]bool{}) == "" {
			continue
		}
		if k, isK := r.Results[iv].(*ssa.Const); isK && k.IsNil() {
			continue
		}
		xv, ok1 := r.Results[iv].(*ssa.Extract)
		xe, ok2 := r.Results[ie].(*ssa.Extract)
		if ok1 && ok2 && xv.Tuple == xe.Tuple {
			if call, ok := xv.Tuple.(*ssa.Call); ok {
				if inner := call.Common().StaticCallee(); inner != nil && len(inner.Blocks) > 0 && siblingNilWhenTyped(inner, xv.Index, xe.Index, carries, depth+1) {
					continue
				}
			}
		}
		return false
	}
	return true
}
