package main

// C14, second part: object hand-over rules.
//
// R14e — an object given back to a sync.Pool is not touched again by the giver.
// R14f — a function that starts a goroutine does not keep using the mutable objects it
//        handed to that goroutine until it has joined it.

import (
	"fmt"
	"go/token"
	"go/types"
	"sort"
	"strings"

	"golang.org/x/tools/go/ssa"
)

// poolUseAfterPut: for every (*sync.Pool).Put(x), instructions that use x after the Put.
func poolUseAfterPut(p *Prog) (out []gFinding) {
	nPut := map[*ssa.Function]int{}
	for _, fn := range p.Funcs {
		for _, ci := range p.callsIn(fn, "(*sync.Pool).Put") {
			if len(ci.Common().Args) < 2 {
				continue
			}
			v := stripConv(ci.Common().Args[1])
			put := ci.(ssa.Instruction)
			set := map[ssa.Value]bool{v: true}
			// the same object loaded again from the same address counts too
			if l, ok := v.(*ssa.UnOp); ok && l.Op == token.MUL {
				if k := p.memKey(l.X); k != "" {
					for _, b := range fn.Blocks {
						for _, in := range b.Instrs {
							if l2, ok := in.(*ssa.UnOp); ok && l2.Op == token.MUL && p.memKey(l2.X) == k && sameBase(l.X, l2.X) {
								set[l2] = true
							}
						}
					}
				}
			}
			bad := ""
			for x := range set {
				for _, r := range *x.Referrers() {
					if r == put {
						continue
					}
					if mi, ok := r.(*ssa.MakeInterface); ok {
						if mi == ci.Common().Args[1] {
							continue
						}
					}
					if _, ok := r.(*ssa.DebugRef); ok {
						continue
					}
					if _, isDefer := r.(*ssa.Defer); isDefer {
						bad = "deferred call " + p.Pos(r.Pos())
						continue
					}
					if reachableAfter(fn, put, r, nil, nil) {
						bad = fmt.Sprintf("%s at %s", strings.SplitN(r.String(), "\n", 2)[0], p.Pos(r.Pos()))
					}
				}
			}
			nPut[fn]++
			out = append(out, gFinding{Key: fmt.Sprintf("%s Put#%d", p.FName(fn), nPut[fn]), Pos: p.Pos(put.Pos()), OK: bad == "", Detail: bad})
		}
	}
	return
}

// sameBase: two field addresses go through the same base value.
func sameBase(a, b ssa.Value) bool {
	fa, ok1 := a.(*ssa.FieldAddr)
	fb, ok2 := b.(*ssa.FieldAddr)
	if ok1 && ok2 {
		return fa.X == fb.X && fa.Field == fb.Field
	}
	return a == b
}

// handOverSafe: types whose values may be used from two goroutines at once (internally
// synchronised, immutable, or copies).
func handOverSafe(t types.Type) bool {
	switch u := t.Underlying().(type) {
	case *types.Basic, *types.Chan, *types.Signature:
		return true
	case *types.Interface:
		s := t.String()
		return s == "context.Context" || s == "error"
	case *types.Pointer:
		if hasOwnSync(u.Elem(), 0) {
			return true
		}
		s := u.Elem().String()
		for _, ok := range []string{"io.PipeWriter", "io.PipeReader", "sync.", "golang.org/x/sync/errgroup.Group", "os.Process", "net/http.Server", "github.com/rs/zerolog.", "context."} {
			if strings.HasPrefix(s, ok) {
				return true
			}
		}
	case *types.Struct:
		s := t.String()
		return strings.HasPrefix(s, "github.com/rs/zerolog.") || strings.HasPrefix(s, "time.")
	}
	return false
}

// hasOwnSync: a struct that carries its own synchronisation (a mutex, once, wait group,
// atomic, channel, context or errgroup field, directly or in an embedded/member struct) is
// designed to be shared between goroutines; lock discipline for such objects is R14b's job.
func hasOwnSync(t types.Type, depth int) bool {
	st, ok := t.Underlying().(*types.Struct)
	if !ok || depth > 2 {
		return false
	}
	for i := 0; i < st.NumFields(); i++ {
		ft := st.Field(i).Type()
		if p, ok := ft.(*types.Pointer); ok {
			ft = p.Elem()
		}
		s := ft.String()
		if strings.HasPrefix(s, "sync.") || strings.HasPrefix(s, "sync/atomic.") || strings.HasPrefix(s, "golang.org/x/sync/errgroup.") {
			return true
		}
		if _, ok := ft.Underlying().(*types.Chan); ok {
			return true
		}
		if _, ok := ft.Underlying().(*types.Struct); ok && hasOwnSync(ft, depth+1) {
			return true
		}
	}
	return false
}

type goShare struct {
	Fn     *ssa.Function
	Go     *ssa.Go
	What   string
	Use    ssa.Instruction
	Joined bool
}

// goroutineShares lists, for every go statement of the module, the mutable objects handed to
// the goroutine that the spawner uses again before joining it.
func goroutineShares(p *Prog) (sites int, out []goShare) {
	for _, fn := range p.Funcs {
		for _, b := range fn.Blocks {
			for _, in := range b.Instrs {
				g, ok := in.(*ssa.Go)
				if !ok {
					continue
				}
				sites++
				var shared []ssa.Value
				var body *ssa.Function
				if mc, ok := g.Call.Value.(*ssa.MakeClosure); ok {
					shared = append(shared, mc.Bindings...)
					body, _ = mc.Fn.(*ssa.Function)
				} else if f := g.Call.StaticCallee(); f != nil {
					body = f
				}
				shared = append(shared, g.Call.Args...)
				// join points: receives on channels the goroutine can signal, and Wait calls
				joinBlocks := map[int]int{} // block -> instruction index of first join
				chans := map[ssa.Value]bool{}
				for _, s := range shared {
					if a, ok := s.(*ssa.Alloc); ok {
						if _, isChan := a.Type().(*types.Pointer).Elem().Underlying().(*types.Chan); isChan {
							for _, r := range *a.Referrers() {
								if l, ok := r.(*ssa.UnOp); ok && l.Op == token.MUL {
									chans[l] = true
								}
								if st, ok := r.(*ssa.Store); ok {
									chans[st.Val] = true
								}
							}
						}
					} else if _, isChan := s.Type().Underlying().(*types.Chan); isChan {
						chans[s] = true
					}
				}
				for _, bb := range fn.Blocks {
					for i, x := range bb.Instrs {
						isJoin := false
						switch y := x.(type) {
						case *ssa.UnOp:
							if y.Op == token.ARROW && chans[y.X] {
								isJoin = true
							}
						case *ssa.Select:
							for _, st := range y.States {
								if st.Dir == types.RecvOnly && chans[st.Chan] {
									isJoin = true
								}
							}
						case ssa.CallInstruction:
							n := p.calleeName(y.Common())
							if n == "(*sync.WaitGroup).Wait" || n == "(*golang.org/x/sync/errgroup.Group).Wait" {
								isJoin = true
							}
						}
						if isJoin {
							if _, seen := joinBlocks[bb.Index]; !seen {
								joinBlocks[bb.Index] = i
							}
						}
					}
				}
				// blocks reachable after the go statement without passing a join
				del := map[edge]bool{}
				for bi := range joinBlocks {
					for si := range fn.Blocks[bi].Succs {
						del[edge{bi, si}] = true
					}
				}
				var starts []*ssa.BasicBlock
				if _, j := joinBlocks[b.Index]; !j || joinBlocks[b.Index] < instrIndex(g) {
					starts = succsFrom(b, nil)
					if j && joinBlocks[b.Index] < instrIndex(g) {
						starts = b.Succs
					}
				}
				after := reach(fn, starts, del, nil)
				unjoined := func(use ssa.Instruction) bool {
					ub := use.Block()
					ui := instrIndex(use)
					if ub == b && ui > instrIndex(g) {
						if ji, j := joinBlocks[b.Index]; j && ji > instrIndex(g) && ji < ui {
							return false
						}
						return true
					}
					if !after[ub.Index] {
						return false
					}
					if ji, j := joinBlocks[ub.Index]; j && ji < ui {
						// the join precedes the use inside the block; the block may still be
						// entered again, but then the join is passed again as well
						return false
					}
					return true
				}
				// a variable declared inside a loop body is a new object on every iteration: a use
				// that can only be reached by executing its allocation again is not shared
				sameObject := func(a *ssa.Alloc, use ssa.Instruction) bool {
					ab := a.Block()
					if use.Block() == ab {
						return b == ab && instrIndex(use) > instrIndex(g) || instrIndex(use) < instrIndex(a)
					}
					d := map[edge]bool{}
					for k, v := range del {
						d[k] = v
					}
					for _, pb := range ab.Preds {
						for si, sb := range pb.Succs {
							if sb == ab {
								d[edge{pb.Index, si}] = true
							}
						}
					}
					return reach(fn, succsFrom(b, d), d, nil)[use.Block().Index]
				}
				for _, s := range shared {
					vals := map[ssa.Value]bool{}
					var ty types.Type
					what := ""
					if a, ok := s.(*ssa.Alloc); ok {
						ty = a.Type().(*types.Pointer).Elem()
						what = "variable " + a.Comment
						for _, r := range *a.Referrers() {
							if l, ok := r.(*ssa.UnOp); ok && l.Op == token.MUL && sameObject(a, l) {
								vals[l] = true
							}
							// the variable itself: the spawner assigns it after the go statement
							if st, ok := r.(*ssa.Store); ok && st.Addr == a && unjoined(st) && sameObject(a, st) && body != nil && closureTouches(body, a, g) {
								out = append(out, goShare{fn, g, what + " (assigned by the spawner while the goroutine reads it)", st, false})
							}
						}
					} else {
						ty = s.Type()
						vals[s] = true
						what = "value " + s.Name()
					}
					if handOverSafe(ty) {
						continue
					}
					switch ty.Underlying().(type) {
					case *types.Pointer, *types.Map, *types.Slice, *types.Interface:
					default:
						continue // copied
					}
					what += " of type " + types.TypeString(ty, func(pk *types.Package) string { return pk.Name() })
					for v := range vals {
						for _, r := range *v.Referrers() {
							if r == ssa.Instruction(g) {
								continue
							}
							if _, ok := r.(*ssa.DebugRef); ok {
								continue
							}
							if mc, ok := r.(*ssa.MakeClosure); ok && ssa.Value(mc) == g.Call.Value {
								continue
							}
							if unjoined(r) {
								out = append(out, goShare{fn, g, what, r, false})
							}
						}
					}
				}
			}
		}
	}
	sort.Slice(out, func(i, j int) bool {
		if out[i].Go.Pos() != out[j].Go.Pos() {
			return out[i].Go.Pos() < out[j].Go.Pos()
		}
		return out[i].Use.Pos() < out[j].Use.Pos()
	})
	return
}

// closureTouches: does the goroutine body load or store the captured variable a?
func closureTouches(body *ssa.Function, a *ssa.Alloc, g *ssa.Go) bool {
	mc, ok := g.Call.Value.(*ssa.MakeClosure)
	if !ok {
		return false
	}
	for i, bnd := range mc.Bindings {
		if bnd == ssa.Value(a) && i < len(body.FreeVars) {
			return len(*body.FreeVars[i].Referrers()) > 0
		}
	}
	return false
}

// goShareFindings adapts goroutineShares to the generic finding shape (one per go site).
func goShareFindings(p *Prog) (out []gFinding) {
	_, shares := goroutineShares(p)
	n := map[*ssa.Function]int{}
	seen := map[*ssa.Go]bool{}
	for _, s := range shares {
		if seen[s.Go] {
			continue
		}
		seen[s.Go] = true
		n[s.Fn]++
		out = append(out, gFinding{Key: fmt.Sprintf("%s go#%d", p.FName(s.Fn), n[s.Fn]), Pos: p.Pos(s.Go.Pos()), Detail: fmt.Sprintf("%s is used by the spawner at %s while the goroutine may still be running", s.What, p.Pos(s.Use.Pos()))})
	}
	return
}

// poolEscapes: memory handed to a sync.Pool that is also handed out: Put(x) where x is (a
// slice of / a pointer to a local copy of) the contents of a struct field, while some function
// of the module returns that same field without copying it. The caller of that function and the
// next user of the pool then share one backing array.
func poolEscapes(p *Prog) (out []gFinding) {
	fieldOf := func(v ssa.Value) string {
		for i := 0; i < 6; i++ {
			v = stripConv(v)
			switch x := v.(type) {
			case *ssa.Slice:
				v = x.X
				continue
			case *ssa.UnOp:
				if x.Op == token.MUL {
					if k := p.memKey(x.X); strings.HasPrefix(k, "f:") {
						return k
					}
					if a, ok := x.X.(*ssa.Alloc); ok {
						if sv := singleStoreValue(x); sv != nil {
							v = sv
							_ = a
							continue
						}
					}
				}
			case *ssa.Alloc:
				// &local : what was stored into the local
				var sv ssa.Value
				for _, r := range *x.Referrers() {
					if st, ok := r.(*ssa.Store); ok && st.Addr == ssa.Value(x) {
						sv = st.Val
					}
				}
				if sv != nil {
					v = sv
					continue
				}
			}
			return ""
		}
		return ""
	}
	n := map[*ssa.Function]int{}
	for _, fn := range p.Funcs {
		for _, ci := range p.callsIn(fn, "(*sync.Pool).Put") {
			if len(ci.Common().Args) < 2 {
				continue
			}
			key := fieldOf(ci.Common().Args[1])
			if key == "" {
				// a pooled *bytes.Buffer: its Bytes() must not reach what the function returns
				// (parsers such as encoding/asn1 keep sub-slices of their input in the result)
				bv := stripConv(ci.Common().Args[1])
				if !strings.HasSuffix(bv.Type().String(), "bytes.Buffer") {
					continue
				}
				n[fn]++
				where := ""
				for _, bc := range p.callsIn(fn, "(*bytes.Buffer).Bytes") {
					if stripConv(bc.Common().Args[0]) != bv {
						continue
					}
					for _, r := range returnsOf(fn) {
						for i := range r.Results {
							if _, isErr := r.Results[i].Type().Underlying().(*types.Interface); isErr && isErrorType(r.Results[i].Type()) {
								continue
							}
							if dependsOn(retVal(r, i), func(x ssa.Value) bool { return x == bc.Value() }) {
								where = p.Pos(r.Pos())
							}
						}
					}
				}
				out = append(out, gFinding{Key: fmt.Sprintf("%s pools a buffer#%d", p.FName(fn), n[fn]), Pos: p.Pos(ci.Pos()), OK: where == "",
					Detail: "the bytes of a buffer that goes back into a sync.Pool flow into the value returned at " + where + ": structures parsed from those bytes keep sub-slices of them (asn1 RawContent / RawValue / FullBytes), so the next user of the pooled buffer overwrites a result the caller still holds"})
				continue
			}
			n[fn]++
			// does any function return that field uncopied?
			where := ""
			for _, g := range p.Funcs {
				for _, r := range returnsOf(g) {
					for i := range r.Results {
						if fieldOf(retVal(r, i)) == key {
							where = p.FName(g) + " at " + p.Pos(r.Pos())
						}
					}
				}
			}
			out = append(out, gFinding{Key: fmt.Sprintf("%s pools %s#%d", p.FName(fn), key, n[fn]), Pos: p.Pos(ci.Pos()), OK: where == "",
				Detail: fmt.Sprintf("the memory of %s is put into a sync.Pool here and is also returned uncopied by %s: the caller's result and the next user of the pool share one backing array, so a result is overwritten while it is still in use", key, where)})
		}
	}
	return
}

// poolDoublePut: a method that hands an object held in a field of its receiver back to a
// sync.Pool must forget it (store nil into the field, or be guarded by a done flag): otherwise
// calling the method twice — a deferred Close plus an explicit one — puts one object into the
// pool twice and two later users share it.
func poolDoublePut(p *Prog) (out []gFinding) {
	n := map[*ssa.Function]int{}
	for _, fn := range p.Funcs {
		if fn.Signature.Recv() == nil {
			continue
		}
		for _, ci := range p.callsIn(fn, "(*sync.Pool).Put") {
			if len(ci.Common().Args) < 2 {
				continue
			}
			v := stripConv(ci.Common().Args[1])
			// loaded from a field of the receiver?
			var key string
			switch x := v.(type) {
			case *ssa.UnOp:
				if x.Op == token.MUL {
					key = p.memKey(x.X)
				}
			case *ssa.Field:
				if tn, f, _ := p.fieldLoad(x); tn != "" {
					key = "f:" + tn + "." + f
				}
			}
			if !strings.HasPrefix(key, "f:") {
				continue
			}
			n[fn]++
			cleared := false
			for _, b := range fn.Blocks {
				for _, in := range b.Instrs {
					if st, ok := in.(*ssa.Store); ok && p.memKey(st.Addr) == key && isNilConst(st.Val) {
						cleared = true
					}
				}
			}
			// a value receiver cannot clear anything for the next call
			if _, isPtr := fn.Signature.Recv().Type().(*types.Pointer); !isPtr {
				cleared = false
			}
			out = append(out, gFinding{Key: fmt.Sprintf("%s pools its %s#%d", p.FName(fn), key, n[fn]), Pos: p.Pos(ci.Pos()), OK: cleared,
				Detail: "the object held in " + key + " is put into a sync.Pool but stays in the receiver: a second call of this method (a deferred Close next to an explicit one) pools the same object again, and two concurrent users then get the same object"})
		}
	}
	return
}
