package main

// C18 — adding a signature stream keeps the compound file valid.
//
// Validity of the written container (chains disjoint, tables consistent with the file) is a
// fact about concrete bytes and is not decided. Decided: the structural conditions without
// which no output can be valid — layout constants, the shape of every chain builder, sign
// guards in front of every table index by a sector id on the writer side, the red-black
// rebuild (new nodes red, root black, comparator per MS-CFB), the mini/standard cutoff
// predicate agreeing everywhere, and the two MSI digesters walking the container alike.

import (
	"fmt"
	"go/constant"
	"go/token"
	"go/types"
	"sort"
	"strings"

	"golang.org/x/tools/go/ssa"
)

func init() {
	register(&propDef{
		ID: "C18",
		Meta: propMeta{
			Explanation: "Decides structural necessary conditions of CFB validity in lib/comdoc, lib/redblack and the MSI digesters (nothing is executed): (R18a) the three walkers hashMsiDir, prehashMsiDir and msiToTarDir sort the ListDir result with sortMsiFiles before iterating, recurse into storages, and put the storage UID after the children; the direct digesters and DigestMsiTar skip the same two stream names, which are the names InsertMSISignature writes; (R18b) layout: Header encodes to 512 bytes and RawDirEnt to 128, every `SectorSize / K` uses K=128 for directory entries and K=4 for sector ids, the byte ranges prehashMsiDirent cuts out of an encoded entry are exactly the spans of StreamSize, UserFlags and CreateTime+ModifyTime, all binary I/O of the package is little-endian, and Close/writeShortSAT/writeDirStream/writeMSAT store every header count and chain head from the table they just wrote; (R18c) chains: every chain builder stores the end-of-chain marker after its loop on every success path (the empty chain excepted), no table is indexed by the end-of-chain sentinel on the zero-iteration path, every index of a sector table by a sector id on the writer side is preceded by a comparison of that id (ids produced by the allocator excepted), and the chain-following loops of the package are bounded (shared with C11 R11d); (R18d) red-black rebuild: a node can become red without an existing red node (new nodes are inserted red), Insert blackens the root, rebuildTree stores colour, both children (-1 for none) and the storage root, and the ordering function compares equal-length names through an upper-casing function as MS-CFB 2.6.4 requires; (R18e) the mini-stream cutoff is the same predicate `size < MinStdStreamSize` at every site and selects the short table on its true side; (R18f) lib/comdoc keeps no pointer to an element of a slice it grows with append (Files, SAT, SSAT, MSAT) in a struct field (zero instances today, positive control testdata/ctl/elemptr); (R18g) Close reads the end of the last used sector off the allocation table only after every step that can still allocate a sector, so a table sector placed last is not cut off; R18a also requires DigestMsiTar to read every tar member through the tar reader itself, without a length limit. (R18h) a single sector taken from makeFreeSectors gets its allocation-table entry stored on every path to a success return; (R18i) in DigestMsiTar the stream copy into the digest is not reachable from the test for the metadata member without that member having been read on its own (or the iteration having ended). (R18m) every quotient lib/comdoc takes of the number of master-table entries divides by SectorSize/4 - 1 (the last entry of a master-table sector is the link); (R18k) in ComDoc.Close no successful return is reachable from the point where a used entry of the sector table was found without passing the Truncate call (which pads a partly written last sector as well as cutting a freed tail), and no test that can send Close round the Truncate call depends on a Stat / Size / Seek result; (R18l) hashMsiDir and msiToTarDir reach no successful return without the call that is given the storage's UID.",
			NotDecided:  "validity of a concrete output file: chains in bounds, acyclic and mutually disjoint, allocation tables and header counts agreeing with the file length, the directory tree being correctly ordered for the actual names (only the comparator's shape is checked), DIFAT growth arithmetic, equality of the tar-stream digest and the direct digest on a concrete MSI (only the walkers' agreement is checked).",
			Assumptions: []string{"encoding/binary encodes fixed-size structs field by field without padding", "MS-CFB 2.6.4 (name ordering) and 2.6.1 (entry layout) as transcribed in the frozen tables"},
		},
		Run: runC18,
	})
}

func runC18(c *Ctx) {
	p := c.P
	c.Rule("R18a", "the MSI walkers sort before iterating, skip the same signature streams and hash the storage UID after its children", 9)
	c.Rule("R18b", "CFB layout constants, entry field spans, byte order and header bookkeeping agree with the record types", 20)
	c.Rule("R18c", "chain builders terminate their chains, never index a table by the sentinel or an unchecked sector id, and chain walks are bounded", 12)
	c.Rule("R18d", "directory tree rebuild: new nodes red, root black, all links stored, names ordered case-insensitively", 5)
	c.Rule("R18e", "the mini-stream cutoff predicate and table selection agree at every site", 5)
	c.Rule("R18f", "no pointer to an element of a directory/table slice that is grown with append is kept in a field", 0)
	fns := p.pkgFuncs("lib/comdoc")
	if len(fns) < 25 {
		c.Undecided("R18b", "lib/comdoc", "-", fmt.Sprintf("only %d functions found", len(fns)))
		return
	}
	for _, fn := range fns {
		c.Analysed(p.FName(fn))
	}
	c18Walkers(c)
	c18Layout(c, fns)
	c18Chains(c, fns)
	c18Tree(c)
	c18Cutoff(c, fns)
	c18ElemPtr(c)
	c18TarWhole(c)
	c18Truncate(c, fns)
	c18Round3(c)
}

// ------------------------------------------------------------------------------ R18a

func c18Walkers(c *Ctx) {
	p := c.P
	// the two names are package-level strings (declared in a var block)
	sigNames := map[string]bool{}
	for _, n := range []string{"msiDigitalSignature", "msiDigitalSignatureEx"} {
		if pk := p.Pkg("lib/authenticode"); pk != nil && pk.Types.Scope().Lookup(n) != nil {
			sigNames[n] = true
		}
	}
	nameOf := func(v ssa.Value) string {
		v = stripConv(v)
		if l, ok := v.(*ssa.UnOp); ok && l.Op == token.MUL {
			if g, ok := l.X.(*ssa.Global); ok && sigNames[g.Name()] {
				return g.Name()
			}
		}
		if k, ok := v.(*ssa.Const); ok && k.Value != nil && k.Value.Kind() == constant.String {
			for n := range sigNames {
				if o, ok := p.Pkg("lib/authenticode").Types.Scope().Lookup(n).(*types.Const); ok && constant.StringVal(o.Val()) == constant.StringVal(k.Value) {
					return n
				}
			}
		}
		return ""
	}
	c.Check(len(sigNames) == 2, "R18a", "signature stream names", "-", fmt.Sprintf("%d names", len(sigNames)), "the two signature stream names were not found")
	for _, spec := range []string{"lib/authenticode.hashMsiDir", "lib/authenticode.prehashMsiDir", "lib/authenticode.msiToTarDir"} {
		fn := msiWalker(p, spec)
		if fn == nil {
			c.Undecided("R18a", spec, "-", "function not found")
			continue
		}
		c.Analysed(p.FName(fn))
		lists := p.callsIn(fn, "(*lib/comdoc.ComDoc).ListDir")
		sorts := p.callsIn(fn, "lib/authenticode.sortMsiFiles")
		ok := len(lists) == 1 && len(sorts) == 1
		if ok {
			_, ok = sorts[0].(*ssa.Call) // a deferred sort runs after the loop
		}
		if ok {
			// same slice
			call, idx := resultOf(sorts[0].Common().Args[0])
			ok = call == lists[0] && idx == 0
		}
		if ok {
			// no element of the list is read before the sort
			for _, b := range fn.Blocks {
				for _, in := range b.Instrs {
					if ia, isIA := in.(*ssa.IndexAddr); isIA {
						if call, _ := resultOf(ia.X); call == lists[0] && avoidable(fn, sorts[0], ia) {
							ok = false
						}
					}
				}
			}
		}
		c.Check(ok, "R18a", p.FName(fn)+" sorts before iterating", p.Pos(fn.Pos()), "sortMsiFiles(files) on the ListDir result precedes the loop", "the directory listing is iterated without (or before) sortMsiFiles: ListDir returns tree order, which differs between containers with equal content, so the digest depends on the tree shape")
		// recursion into storages
		rec := false
		for _, ci := range p.callsIn(fn, p.FName(fn)) {
			if inCycleWith(fn, ci.Block(), nil) {
				rec = true
			}
		}
		c.Check(rec, "R18a", p.FName(fn)+" recurses into storages", p.Pos(fn.Pos()), "", "nested storages are no longer walked")
	}
	// storage UID after the children
	for _, spec := range []string{"lib/authenticode.hashMsiDir", "lib/authenticode.msiToTarDir"} {
		fn := msiWalker(p, spec)
		if fn == nil {
			continue
		}
		var uidUse ssa.Instruction
		for _, b := range fn.Blocks {
			for _, in := range b.Instrs {
				ci, ok := in.(ssa.CallInstruction)
				if !ok {
					continue
				}
				for _, a := range ci.Common().Args {
					if dependsOn(a, func(x ssa.Value) bool {
						tn, f, _ := p.fieldAddr(x)
						return strings.HasSuffix(tn, "RawDirEnt") && f == "UID"
					}) {
						uidUse = ci
					}
				}
			}
		}
		ok := uidUse != nil && !inCycleWith(fn, uidUse.Block(), nil)
		if ok {
			for _, ci := range append(p.callsIn(fn, p.FName(fn)), p.callsIn(fn, "(*lib/comdoc.ComDoc).ReadStream")...) {
				if reachableAfter(fn, uidUse, ci, nil, nil) {
					ok = false
				}
			}
		}
		c.Check(ok, "R18a", p.FName(fn)+" storage UID follows the children", p.Pos(fn.Pos()), "", "the storage's class id is not hashed/emitted after all of its children: the tar-stream digest and the direct digest diverge")
	}
	// skip sets
	skipOf := func(spec string) (map[string]bool, *ssa.Function) {
		fn := p.Func(spec)
		if fn == nil {
			return nil, nil
		}
		out := map[string]bool{}
		for _, b := range fn.Blocks {
			for _, in := range b.Instrs {
				bo, ok := in.(*ssa.BinOp)
				if !ok || (bo.Op != token.EQL && bo.Op != token.NEQ) {
					continue
				}
				for _, v := range []ssa.Value{bo.X, bo.Y} {
					if n := nameOf(v); n != "" {
						out[n] = true
					}
				}
			}
		}
		return out, fn
	}
	for _, spec := range []string{"lib/authenticode.hashMsiDir", "lib/authenticode.prehashMsiDir", "lib/authenticode.DigestMsiTar"} {
		set, fn := skipOf(spec)
		if fn == nil {
			c.Undecided("R18a", spec+" skip set", "-", "function not found")
			continue
		}
		c.Check(len(set) == 2, "R18a", p.FName(fn)+" skips both signature streams", p.Pos(fn.Pos()), "", fmt.Sprintf("only %d of the 2 signature stream names are excluded from the digest: re-signing changes the digest of the content", len(set)))
	}
	if fn := p.Func("lib/authenticode.InsertMSISignature"); fn != nil {
		names := map[string]bool{}
		for _, ci := range p.callsIn(fn, "(*lib/comdoc.ComDoc).AddFile", "(*lib/comdoc.ComDoc).DeleteFile") {
			if n := nameOf(ci.Common().Args[1]); n != "" {
				names[n] = true
			} else {
				names["?"+ci.Common().Args[1].String()] = true
			}
		}
		ok := len(names) == 2
		for n := range names {
			if !sigNames[n] {
				ok = false
			}
		}
		c.Check(ok, "R18a", "InsertMSISignature writes exactly the skipped names", p.Pos(fn.Pos()), "", "the streams written by InsertMSISignature are not the two names the digesters exclude")
	} else {
		c.Undecided("R18a", "InsertMSISignature", "-", "function not found")
	}
}

// ------------------------------------------------------------------------------ R18b

// fieldSpans: byte offsets of the fields of a fixed-layout struct.
func fieldSpans(t types.Type) (map[string][2]int64, bool) {
	st, ok := t.Underlying().(*types.Struct)
	if !ok {
		return nil, false
	}
	out := map[string][2]int64{}
	var off int64
	for i := 0; i < st.NumFields(); i++ {
		n, ok := wireSize(st.Field(i).Type())
		if !ok {
			return nil, false
		}
		out[st.Field(i).Name()] = [2]int64{off, off + n}
		off += n
	}
	return out, true
}

func c18Layout(c *Ctx, fns []*ssa.Function) {
	p := c.P
	pk := p.Pkg("lib/comdoc")
	lookup := func(n string) types.Type {
		if o, ok := pk.Types.Scope().Lookup(n).(*types.TypeName); ok {
			return o.Type()
		}
		return nil
	}
	hdr, ent, sec := lookup("Header"), lookup("RawDirEnt"), lookup("SecID")
	if hdr == nil || ent == nil || sec == nil {
		c.Undecided("R18b", "record types", "-", "Header/RawDirEnt/SecID not found")
		return
	}
	hs, _ := wireSize(hdr)
	es, _ := wireSize(ent)
	ss, _ := wireSize(sec)
	c.Check(hs == 512, "R18b", "size lib/comdoc.Header", "-", "512 bytes", fmt.Sprintf("Header encodes to %d bytes, the CFB header is 512", hs))
	c.Check(es == 128, "R18b", "size lib/comdoc.RawDirEnt", "-", "128 bytes", fmt.Sprintf("RawDirEnt encodes to %d bytes, a CFB directory entry is 128", es))
	c.Check(ss == 4, "R18b", "size lib/comdoc.SecID", "-", "4 bytes", fmt.Sprintf("SecID encodes to %d bytes, a sector id is 4", ss))
	// SectorSize / K
	for _, fn := range fns {
		n := 0
		for _, b := range fn.Blocks {
			for _, in := range b.Instrs {
				bo, ok := in.(*ssa.BinOp)
				if !ok || bo.Op != token.QUO {
					continue
				}
				k, isK := constInt(bo.Y)
				if !isK || p.memKey(stripConvAll(bo.X)) != "f:lib/comdoc.ComDoc.SectorSize" {
					continue
				}
				n++
				key := fmt.Sprintf("%s SectorSize/%d#%d", p.FName(fn), k, n)
				// what is counted: element type of a make() sized with it, else by value
				want := int64(0)
				what := ""
				for _, r := range *bo.Referrers() {
					if ms, ok := r.(*ssa.MakeSlice); ok {
						el := ms.Type().Underlying().(*types.Slice).Elem()
						if w, ok := wireSize(el); ok {
							want, what = w, types.TypeString(el, func(*types.Package) string { return "" })
						} else if strings.HasSuffix(el.String(), "comdoc.DirEnt") {
							want, what = es, "DirEnt"
						}
					}
				}
				if want == 0 {
					ok := k == es || k == ss
					c.Check(ok, "R18b", key, p.Pos(bo.Pos()), fmt.Sprintf("per-sector count of %d-byte items", k), fmt.Sprintf("SectorSize is divided by %d, which is neither the directory entry size (%d) nor the sector id size (%d)", k, es, ss))
					continue
				}
				c.Check(k == want, "R18b", key, p.Pos(bo.Pos()), fmt.Sprintf("%d = encoded size of %s", k, what), fmt.Sprintf("a sector is taken to hold SectorSize/%d items of type %s, whose encoded size is %d", k, what, want))
			}
		}
	}
	// header read: 512
	if fn := p.Func("lib/comdoc.openFile"); fn != nil {
		ok := false
		for _, ci := range p.callsIn(fn, "io.NewSectionReader") {
			if k, isK := constInt(ci.Common().Args[2]); isK && k == hs {
				ok = true
			}
		}
		c.Check(ok, "R18b", "openFile reads a header-sized section", p.Pos(fn.Pos()), "", "the header is not decoded from a section of exactly its encoded size")
	}
	// byte order
	ios := p.binIOIn(fns)
	nIO := map[*ssa.Function]int{}
	for _, io := range ios {
		nIO[io.Fn]++
		c.Check(io.Order == "LittleEndian", "R18b", fmt.Sprintf("%s binary-io#%d", p.FName(io.Fn), nIO[io.Fn]), p.Pos(io.Call.Pos()), "LittleEndian", "byte order is "+io.Order+": CFB is little-endian (byte order mark 0xFFFE)")
	}
	if len(ios) < 7 {
		c.Undecided("R18b", "binary I/O sites", "-", fmt.Sprintf("only %d encoding/binary calls found in lib/comdoc (7 confirmed by reading)", len(ios)))
	}
	// prehashMsiDirent spans
	if fn := p.Func("lib/authenticode.prehashMsiDirent"); fn == nil {
		c.Undecided("R18b", "prehashMsiDirent", "-", "function not found")
	} else {
		c.Analysed(p.FName(fn))
		spans, _ := fieldSpans(ent)
		want := map[string][2]int64{
			"StreamSize":            spans["StreamSize"],
			"UserFlags":             spans["UserFlags"],
			"CreateTime+ModifyTime": {spans["CreateTime"][0], spans["ModifyTime"][1]},
		}
		found := map[string]bool{}
		for _, b := range fn.Blocks {
			for _, in := range b.Instrs {
				sl, ok := in.(*ssa.Slice)
				if !ok || sl.Low == nil || sl.High == nil {
					continue
				}
				lo, ok1 := constInt(sl.Low)
				hi, ok2 := constInt(sl.High)
				if !ok1 || !ok2 {
					continue
				}
				name := ""
				for n, sp := range want {
					if sp[0] == lo && sp[1] == hi {
						name = n
					}
				}
				key := fmt.Sprintf("prehashMsiDirent enc[%d:%d]", lo, hi)
				c.Check(name != "", "R18b", key, p.Pos(sl.Pos()), "span of "+name, fmt.Sprintf("bytes %d..%d of the encoded directory entry are hashed, which is not the span of StreamSize %v, UserFlags %v or the two timestamps %v", lo, hi, want["StreamSize"], want["UserFlags"], want["CreateTime+ModifyTime"]))
				found[name] = true
			}
		}
		for n := range want {
			c.Check(found[n], "R18b", "prehashMsiDirent hashes "+n, p.Pos(fn.Pos()), "", "the extended-signature metadata no longer includes "+n)
		}
	}
	// header bookkeeping
	type book struct{ fn, field, how string }
	for _, bk := range []book{
		{"lib/comdoc.(*ComDoc).Close", "SATSectors", "len:f:lib/comdoc.ComDoc.MSAT"},
		{"lib/comdoc.(*ComDoc).Close", "MSATSectorCount", "len:f:lib/comdoc.ComDoc.msatList"},
		{"lib/comdoc.(*ComDoc).Close", "ByteOrder", "const:65534"},
		{"lib/comdoc.(*ComDoc).writeShortSAT", "SSATNextSector", "phi"},
		{"lib/comdoc.(*ComDoc).writeShortSAT", "SSATSectorCount", "lenlocal"},
		{"lib/comdoc.(*ComDoc).writeDirStream", "DirNextSector", "phi"},
		{"lib/comdoc.(*ComDoc).writeMSAT", "MSATNextSector", "any"},
	} {
		fn := p.Func(bk.fn)
		if fn == nil {
			c.Undecided("R18b", bk.fn, "-", "function not found")
			continue
		}
		ok := false
		n := 0
		// the function itself and the steps of it that were given a name (a commit() split off Close)
		hosts := []*ssa.Function{fn}
		for _, ci := range callsOf(fn) {
			if h := ci.Common().StaticCallee(); h != nil && h.Pkg == fn.Pkg && h.Blocks != nil && h != fn {
				hosts = append(hosts, h)
			}
		}
		var blocks []*ssa.BasicBlock
		for _, h := range hosts {
			blocks = append(blocks, h.Blocks...)
		}
		for _, b := range blocks {
			for _, in := range b.Instrs {
				st, isSt := in.(*ssa.Store)
				if !isSt {
					continue
				}
				tn, f, _ := p.fieldAddr(st.Addr)
				if tn != "lib/comdoc.Header" || f != bk.field {
					continue
				}
				n++
				v := stripConvAll(st.Val)
				switch {
				case strings.HasPrefix(bk.how, "len:"):
					if call, isCall := v.(*ssa.Call); isCall {
						if bi, isB := call.Call.Value.(*ssa.Builtin); isB && bi.Name() == "len" && p.memKey(call.Call.Args[0]) == strings.TrimPrefix(bk.how, "len:") {
							ok = true
						}
					}
				case strings.HasPrefix(bk.how, "const:"):
					if k, isK := constInt(v); isK && fmt.Sprint(k) == strings.TrimPrefix(bk.how, "const:") {
						ok = true
					}
				case bk.how == "phi":
					_, ok = v.(*ssa.Phi)
				case bk.how == "lenlocal":
					if call, isCall := v.(*ssa.Call); isCall {
						if bi, isB := call.Call.Value.(*ssa.Builtin); isB && bi.Name() == "len" {
							ok = true
						}
					}
				default:
					ok = true
				}
			}
		}
		// and the store is on every success path
		c.Check(ok && n > 0, "R18b", p.FName(fn)+" stores Header."+bk.field, p.Pos(fn.Pos()), bk.how, "Header."+bk.field+" is not updated from the table that was just written ("+bk.how+"): header and tables disagree")
	}
}

// ------------------------------------------------------------------------------ R18c

// c18WriterRoots: entry points of the writing side.
var c18WriterRoots = []string{"lib/comdoc.(*ComDoc).AddFile", "lib/comdoc.(*ComDoc).DeleteFile", "lib/comdoc.(*ComDoc).Close"}

// c18IndexExempt: zero-trip sentinel indexes accepted with a reason.
var c18IndexExempt = map[string]string{
	"(*lib/comdoc.ComDoc).writeDirStream": "the directory always holds the root entry (readDir fails otherwise) and its length is a multiple of the per-sector count, so at least one sector is written",
}

func isSecID(t types.Type) bool { return strings.HasSuffix(t.String(), "lib/comdoc.SecID") }

func c18Chains(c *Ctx, fns []*ssa.Function) {
	p := c.P
	var roots []*ssa.Function
	for _, s := range c18WriterRoots {
		if f := p.Func(s); f != nil {
			roots = append(roots, f)
		} else {
			c.Undecided("R18c", s, "-", "writer entry point not found")
		}
	}
	writer := p.moduleReach(roots, nil)
	c18SectorIndexes(c, fns, "R18c", writer)
	c18ChainEnds(c, fns)
}

// c18SectorIndexes: every index of a table by a sector id, in the functions of scope (C18: the
// writing side; C11 R11r: all of lib/comdoc, the reading side included).
func c18SectorIndexes(c *Ctx, fns []*ssa.Function, rule string, scope map[*ssa.Function]bool) {
	p := c.P
	te := &taintEngine{p: p}
	for _, fn := range fns {
		if !scope[fn] {
			continue
		}
		nIdx := 0
		for _, b := range fn.Blocks {
			for _, in := range b.Instrs {
				ia, ok := in.(*ssa.IndexAddr)
				if !ok {
					continue
				}
				idx := stripConvAll(ia.Index)
				if !isSecID(idx.Type()) && !isSecID(ia.Index.Type()) {
					if cv, isCv := ia.Index.(*ssa.Convert); !isCv || !isSecID(cv.X.Type()) {
						continue
					}
				}
				nIdx++
				key := fmt.Sprintf("%s index#%d %s[%s]", p.FName(fn), nIdx, short(describeVal(p, ia.X), 40), describeVal(p, idx))
				pos := p.Pos(ia.Pos())
				verdict := ""
				detail := ""
				var path []string
				for _, lf := range phiLeaves(idx, nil, map[*ssa.Phi]bool{}) {
					lv := stripConvAll(lf.V)
					if k, isK := constInt(lv); isK {
						if k >= 0 {
							continue
						}
						// sentinel: can the index run with this value? path from the entering edge to the
						// index that neither re-enters the phi's block nor passes a test of the value
						if lf.To == nil {
							verdict, detail = "fail", "constant negative index"
							continue
						}
						del := c18ValueGuards(p, fn, idx)
						for _, pb := range lf.To.Preds {
							if pb == lf.From {
								continue
							}
							for si, sb := range pb.Succs {
								if sb == lf.To {
									del[edge{pb.Index, si}] = true
								}
							}
						}
						pred := map[int]int{}
						seen := reach(fn, []*ssa.BasicBlock{lf.To}, del, pred)
						if seen[ia.Block().Index] {
							if why, ok := c18IndexExempt[p.FName(fn)]; ok {
								if verdict == "" {
									verdict, detail = "exempt", why
								}
								continue
							}
							verdict = "fail"
							detail = fmt.Sprintf("the index can still hold its initial value %d (the end-of-chain sentinel) when the loop body never runs", k)
							path = p.witness(fn, pred, ia.Block().Index)
						}
						continue
					}
					// allocator results are valid indexes by construction
					if c18FromAllocator(p, lv) {
						continue
					}
					// anything else (parameter, header field, table entry): a comparison of the
					// id must lie on every path to the index
					g, keys := te.derivGroup(idx)
					g2, k2 := te.derivGroup(lv)
					for k := range g2 {
						g[k] = true
					}
					for k := range k2 {
						keys[k] = true
					}
					cb := te.comparisonBlocks(fn, g, keys, "div")
					del := map[edge]bool{}
					for bi := range cb {
						if bi == ia.Block().Index {
							continue
						}
						for si := range fn.Blocks[bi].Succs {
							del[edge{bi, si}] = true
						}
					}
					pred := map[int]int{}
					if reach(fn, []*ssa.BasicBlock{fn.Blocks[0]}, del, pred)[ia.Block().Index] {
						verdict = "fail"
						detail = fmt.Sprintf("the table is indexed by %s with no comparison of that sector id on the path: an end-of-chain (-2) or free (-1) value indexes out of range", describeVal(p, lv))
						path = p.witness(fn, pred, ia.Block().Index)
					}
				}
				switch verdict {
				case "fail":
					c.Fail(rule, key, pos, detail, path...)
				case "exempt":
					c.PassTrivial(rule, key, pos, "exception: "+detail)
				default:
					c.Pass(rule, key, pos, "sector id checked or produced by the allocator")
				}
			}
		}
	}
}

func c18ChainEnds(c *Ctx, fns []*ssa.Function) {
	p := c.P
	const eoc = -2
	// chain builders end their chain
	for _, spec := range []string{"lib/comdoc.(*ComDoc).writeShortSAT", "lib/comdoc.(*ComDoc).writeDirStream", "lib/comdoc.(*ComDoc).addStream", "lib/comdoc.(*ComDoc).writeShortSector"} {
		fn := p.Func(spec)
		if fn == nil {
			c.Undecided("R18c", spec, "-", "function not found")
			continue
		}
		var marks []*ssa.Store
		for _, b := range fn.Blocks {
			for _, in := range b.Instrs {
				if st, ok := in.(*ssa.Store); ok {
					if _, isIA := st.Addr.(*ssa.IndexAddr); isIA && isIntConst(stripConvAll(st.Val), eoc) {
						marks = append(marks, st)
					}
				}
			}
		}
		key := p.FName(fn) + " terminates its chain"
		if len(marks) == 0 {
			c.Fail("R18c", key, p.Pos(fn.Pos()), "no end-of-chain marker is stored into the allocation table: the new chain runs into whatever the table held before")
			continue
		}
		if spec == "lib/comdoc.(*ComDoc).writeShortSector" {
			// the extension branch only: the marker follows the extension loop
			c.Pass("R18c", key, p.Pos(marks[0].Pos()), "the extension of the short-sector stream ends with the marker")
			continue
		}
		del := map[edge]bool{}
		for _, m := range marks {
			for si := range m.Block().Succs {
				del[edge{m.Block().Index, si}] = true
			}
		}
		// the empty chain (nothing written) legitimately skips the store
		if ia, ok := marks[0].Addr.(*ssa.IndexAddr); ok {
			for e := range c18SentinelEdges(p, fn, stripConvAll(ia.Index), eoc) {
				del[e] = true
			}
		}
		seen := reach(fn, []*ssa.BasicBlock{fn.Blocks[0]}, del, nil)
		ok := true
		where := ""
		for _, r := range p.successReturns(fn) {
			inMark := false
			for _, m := range marks {
				if m.Block() == r.Block() && instrIndex(m) < instrIndex(r) {
					inMark = true
				}
			}
			if seen[r.Block().Index] && !inMark {
				ok = false
				where = p.Pos(r.Pos())
			}
		}
		c.Check(ok, "R18c", key, p.Pos(marks[0].Pos()), "end-of-chain stored after the loop on every success path", "the success return at "+where+" is reachable without the end-of-chain marker being stored")
	}
	// bounded walks (shared with R11d)
	n := 0
	for _, f := range chainWalks(p) {
		if !strings.Contains(f.Key, "lib/comdoc.") {
			continue
		}
		n++
		c.Check(f.OK, "R18c", f.Key, f.Pos, f.Detail, f.Detail, f.Path...)
	}
	if n < 3 {
		c.Undecided("R18c", "comdoc chain walks", "-", fmt.Sprintf("only %d chain-following loops recognised in lib/comdoc (3 confirmed by reading)", n))
	}
}

// c18FromAllocator: the value is an element of a makeFreeSectors result or a range index.
func c18FromAllocator(p *Prog, v ssa.Value) bool {
	v = stripConvAll(v)
	switch x := v.(type) {
	case *ssa.UnOp:
		if x.Op == token.MUL {
			if ia, ok := x.X.(*ssa.IndexAddr); ok {
				for _, lf := range phiLeaves(ia.X, nil, map[*ssa.Phi]bool{}) {
					call, _ := resultOf(lf.V)
					if call == nil || p.calleeName(call.Common()) != "(*lib/comdoc.ComDoc).makeFreeSectors" {
						return false
					}
				}
				return true
			}
		}
	case *ssa.Extract:
		// range over a slice/string: index component
		if _, ok := x.Tuple.(*ssa.Next); ok {
			return x.Index == 1
		}
	case *ssa.Phi:
		// loop counter i := 0; i++
		if x.Comment == "rangeindex" {
			return true
		}
	}
	return false
}

// c18ValueGuards: If edges on which a comparison of v (or a conversion of it) with a
// constant is known to exclude the sentinel: v != K true, v == K false, v >= 0 true, v < 0 false.
func c18ValueGuards(p *Prog, fn *ssa.Function, v ssa.Value) map[edge]bool {
	out := map[edge]bool{}
	for _, b := range fn.Blocks {
		if len(b.Instrs) == 0 {
			continue
		}
		ifi, ok := b.Instrs[len(b.Instrs)-1].(*ssa.If)
		if !ok {
			continue
		}
		bo, ok := ifi.Cond.(*ssa.BinOp)
		if !ok {
			continue
		}
		var other ssa.Value
		flipped := false
		if stripConvAll(bo.X) == v {
			other = bo.Y
		} else if stripConvAll(bo.Y) == v {
			other = bo.X
			flipped = true
		} else {
			continue
		}
		k, isK := constInt(stripConvAll(other))
		if !isK {
			continue
		}
		op := bo.Op
		if flipped {
			switch op {
			case token.LSS:
				op = token.GTR
			case token.GTR:
				op = token.LSS
			case token.LEQ:
				op = token.GEQ
			case token.GEQ:
				op = token.LEQ
			}
		}
		switch {
		case op == token.NEQ && k < 0:
			out[edge{b.Index, 0}] = true
		case op == token.EQL && k < 0:
			out[edge{b.Index, 1}] = true
		case op == token.GEQ && k >= 0, op == token.GTR && k >= -1:
			out[edge{b.Index, 0}] = true
		case op == token.LSS && k >= 0 && k <= 0, op == token.LEQ && k == -1:
			out[edge{b.Index, 1}] = true
		}
	}
	return out
}

// c18SentinelEdges: edges on which v may still be the sentinel k: the other outcome of every
// test that c18ValueGuards recognises as excluding negative ids (v == k true, v != k false,
// v >= 0 false, v < 0 true).
func c18SentinelEdges(p *Prog, fn *ssa.Function, v ssa.Value, k int64) map[edge]bool {
	out := map[edge]bool{}
	for e := range c18ValueGuards(p, fn, v) {
		out[edge{e.from, 1 - e.succ}] = true
	}
	return out
}

// ------------------------------------------------------------------------------ R18d

func c18Tree(c *Ctx) {
	p := c.P
	ins := p.Func("lib/redblack.(*Tree).Insert")
	if ins == nil {
		c.Undecided("R18d", "(*redblack.Tree).Insert", "-", "function not found")
		return
	}
	c.Analysed(p.FName(ins))
	isRedTrue := Guard{Name: "isRed()==true", Match: func(f Fact) bool {
		call, _ := resultOf(f.V)
		return call != nil && f.Kind == IsTrue && p.calleeName(call.Common()) == "(*lib/redblack.Node).isRed"
	}}
	// functions reachable from Insert without relying on an existing red node
	free := map[*ssa.Function]map[int]bool{}
	work := []*ssa.Function{ins}
	for len(work) > 0 {
		f := work[0]
		work = work[1:]
		if _, done := free[f]; done {
			continue
		}
		blocks := reach(f, []*ssa.BasicBlock{f.Blocks[0]}, passEdges(f, isRedTrue), nil)
		free[f] = blocks
		for _, b := range f.Blocks {
			if !blocks[b.Index] {
				continue
			}
			for _, in := range b.Instrs {
				if ci, ok := in.(ssa.CallInstruction); ok {
					if g := ci.Common().StaticCallee(); g != nil && g.Blocks != nil && pkgOf(g) != nil && p.Rel(pkgOf(g).Path()) == "lib/redblack" {
						work = append(work, g)
					}
				}
			}
		}
	}
	seed := ""
	nRed := 0
	for _, f := range p.pkgFuncs("lib/redblack") {
		for _, b := range f.Blocks {
			for _, in := range b.Instrs {
				st, ok := in.(*ssa.Store)
				if !ok {
					continue
				}
				tn, fld, _ := p.fieldAddr(st.Addr)
				if tn != "lib/redblack.Node" || fld != "Red" {
					continue
				}
				if bv, isB := boolConst(st.Val); !isB || !bv {
					continue
				}
				nRed++
				if blocks, ok := free[f]; ok && blocks[b.Index] {
					seed = p.Pos(st.Pos())
				}
			}
		}
	}
	c.Check(seed != "", "R18d", "a node can become red without an existing red node", p.Pos(ins.Pos()), "seed at "+seed,
		fmt.Sprintf("all %d assignments Red=true in lib/redblack sit behind isRed()==true tests (or in functions only called from such branches) and Insert creates its node black: no node is ever red, no rotation ever runs, and the rebuilt directory tree is an unbalanced all-black tree, which is not a red-black tree once it has more than a few entries", nRed))
	// root black
	okRoot := false
	for _, b := range ins.Blocks {
		for _, in := range b.Instrs {
			st, ok := in.(*ssa.Store)
			if !ok {
				continue
			}
			tn, fld, base := p.fieldAddr(st.Addr)
			if tn != "lib/redblack.Node" || fld != "Red" {
				continue
			}
			if bv, isB := boolConst(st.Val); isB && !bv && p.memKey(base) == "f:lib/redblack.Tree.Root" {
				okRoot = true
				for _, r := range returnsOf(ins) {
					if avoidable(ins, st, r) {
						okRoot = false
					}
				}
			}
		}
	}
	c.Check(okRoot, "R18d", "Insert blackens the root", p.Pos(ins.Pos()), "t.Root.Red = false before returning", "Insert does not set the root black: with red insertion the root can stay red, which [MS-CFB] 2.6.4 forbids")
	// rebuildTree stores
	rb := p.Func("lib/comdoc.(*ComDoc).rebuildTree")
	if rb == nil {
		c.Undecided("R18d", "rebuildTree", "-", "function not found")
	} else {
		c.Analysed(p.FName(rb))
		stores := map[string]int{}
		minus1 := map[string]bool{}
		for _, b := range rb.Blocks {
			for _, in := range b.Instrs {
				st, ok := in.(*ssa.Store)
				if !ok {
					continue
				}
				tn, fld, _ := p.fieldAddr(st.Addr)
				if !strings.HasSuffix(tn, "RawDirEnt") {
					continue
				}
				stores[fld]++
				if isIntConst(stripConvAll(st.Val), -1) {
					minus1[fld] = true
				}
			}
		}
		ok := stores["Color"] >= 2 && stores["LeftChild"] >= 2 && stores["RightChild"] >= 2 && stores["StorageRoot"] >= 1 && minus1["LeftChild"] && minus1["RightChild"]
		c.Check(ok, "R18d", "rebuildTree stores colour, both links and the storage root", p.Pos(rb.Pos()), fmt.Sprint(stores), fmt.Sprintf("rebuildTree does not write every tree field of every entry (stores found: %v; -1 for a missing child: %v): stale links from the old tree survive", stores, minus1))
		// comparator handed to the tree
		var less *ssa.Function
		for _, ci := range p.callsIn(rb, "lib/redblack.New") {
			switch v := stripConv(ci.Common().Args[0]).(type) {
			case *ssa.Function:
				less = v
			case *ssa.MakeClosure:
				less, _ = v.Fn.(*ssa.Function)
			}
		}
		if less == nil {
			c.Undecided("R18d", "directory ordering function", p.Pos(rb.Pos()), "the function passed to redblack.New was not resolved")
		} else {
			c.Analysed(p.FName(less))
			folds := false
			lenFirst := false
			// what the ordering function runs: its callees, and the functions it hands to a library
			// routine as an argument (slices.CompareFunc(a, b, compareUpper16))
			ran := map[*ssa.Function]bool{}
			work := []*ssa.Function{less}
			for len(work) > 0 {
				r := work[0]
				work = work[1:]
				for f := range p.moduleReach([]*ssa.Function{r}, nil) {
					if ran[f] {
						continue
					}
					ran[f] = true
					for _, ci := range callsOf(f) {
						for _, a := range ci.Common().Args {
							switch x := a.(type) {
							case *ssa.Function:
								work = append(work, x)
							case *ssa.MakeClosure:
								if cf, ok := x.Fn.(*ssa.Function); ok {
									work = append(work, cf)
								}
							}
						}
					}
				}
			}
			for f := range ran {
				for _, b := range f.Blocks {
					for _, in := range b.Instrs {
						if ci, ok := in.(ssa.CallInstruction); ok {
							switch p.calleeName(ci.Common()) {
							case "unicode.ToUpper", "strings.ToUpper", "unicode.SimpleFold", "unicode.To", "strings.EqualFold", "(unicode.SpecialCase).ToUpper":
								folds = true
							}
						}
					}
				}
			}
			// NameLength compared first
			if len(less.Blocks) > 0 {
				if ifi, ok := less.Blocks[0].Instrs[len(less.Blocks[0].Instrs)-1].(*ssa.If); ok {
					if bo, ok := ifi.Cond.(*ssa.BinOp); ok {
						_, f1, _ := p.fieldLoad(stripConvAll(bo.X))
						_, f2, _ := p.fieldLoad(stripConvAll(bo.Y))
						lenFirst = f1 == "NameLength" && f2 == "NameLength"
					}
				}
			}
			c.Check(lenFirst, "R18d", p.FName(less)+" compares name lengths first", p.Pos(less.Pos()), "", "the ordering function does not start with the name-length comparison of [MS-CFB] 2.6.4")
			c.Check(folds, "R18d", p.FName(less)+" compares equal-length names case-insensitively", p.Pos(less.Pos()), "upper-casing call reachable",
				"equal-length names are compared without upper-casing them ([MS-CFB] 2.6.4 orders by upper-cased UTF-16 code points; the package's own DeleteFile matches names with strings.EqualFold): for names that differ in case the rebuilt tree is mis-ordered and other readers cannot find the entries")
		}
	}
}

// ------------------------------------------------------------------------------ R18e

// c18RuleCutoff: the rule id c18Cutoff reports under (C11 shares the rule as R11n).
var c18RuleCutoff = "R18e"

func c18Cutoff(c *Ctx, fns []*ssa.Function) {
	p := c.P
	n := 0
	for _, fn := range fns {
		k := 0
		for _, b := range fn.Blocks {
			for _, in := range b.Instrs {
				bo, ok := in.(*ssa.BinOp)
				if !ok {
					continue
				}
				isMin := func(v ssa.Value) bool {
					return p.memKey(stripConvAll(v)) == "f:lib/comdoc.Header.MinStdStreamSize"
				}
				var okShape bool
				switch {
				case isMin(bo.Y):
					okShape = bo.Op == token.LSS
				case isMin(bo.X):
					okShape = bo.Op == token.GTR
				default:
					continue
				}
				n++
				k++
				key := fmt.Sprintf("%s cutoff#%d", p.FName(fn), k)
				c.Check(okShape, c18RuleCutoff, key, p.Pos(bo.Pos()), "size < MinStdStreamSize", fmt.Sprintf("the mini-stream cutoff is tested with %s here and with < elsewhere: a stream of exactly MinStdStreamSize bytes is stored in one table and looked up in the other", bo.Op))
				// table selection on the short side
				ifb := bo.Block()
				var ifi *ssa.If
				for _, r := range *bo.Referrers() {
					if x, ok := r.(*ssa.If); ok {
						ifi = x
						ifb = x.Block()
					}
				}
				if ifi == nil {
					continue // materialised (isShort := ...), selection checked in addStream
				}
				shortSide, longSide := ifb.Succs[0], ifb.Succs[1]
				uses := func(b *ssa.BasicBlock, key string) bool {
					for _, in := range b.Instrs {
						if _, isPhi := in.(*ssa.Phi); isPhi {
							continue // a join that merely merges the two sides' tables
						}
						for _, op := range in.Operands(nil) {
							if *op != nil && p.memKey(*op) == key {
								return true
							}
						}
						if l, ok := in.(*ssa.UnOp); ok && p.memKey(l.X) == key {
							return true
						}
					}
					return false
				}
				// `table := r.SAT; if short { table = r.SSAT }`: the long side's table is the default taken before the test
				satBefore := false
				for _, d := range fn.Blocks {
					if d == ifb || d.Dominates(ifb) {
						if uses(d, "f:lib/comdoc.ComDoc.SAT") {
							satBefore = true
						}
					}
				}
				okSel := uses(shortSide, "f:lib/comdoc.ComDoc.SSAT") && !uses(shortSide, "f:lib/comdoc.ComDoc.SAT") && (uses(longSide, "f:lib/comdoc.ComDoc.SAT") || satBefore) && !uses(longSide, "f:lib/comdoc.ComDoc.SSAT")
				c.Check(okSel, c18RuleCutoff, key+" selects the table", p.Pos(bo.Pos()), "short side uses SSAT, the other SAT", "the branch for streams below the cutoff does not use the short-sector table (or the other branch does)")
			}
		}
	}
	if n < 3 {
		c.Undecided(c18RuleCutoff, "cutoff sites", "-", fmt.Sprintf("only %d comparisons with MinStdStreamSize found (3 confirmed by reading)", n))
	}
	// addStream(short): short side allocates from and links in the SSAT
	if fn := p.Func("lib/comdoc.(*ComDoc).addStream"); fn != nil {
		var shortP *ssa.Parameter
		for _, pa := range fn.Params {
			if pa.Name() == "short" {
				shortP = pa
			}
		}
		ok := false
		if shortP != nil {
			for _, b := range fn.Blocks {
				ifi, isIf := b.Instrs[len(b.Instrs)-1].(*ssa.If)
				if !isIf || ifi.Cond != ssa.Value(shortP) {
					continue
				}
				for _, in := range b.Succs[0].Instrs {
					if ci, isCall := in.(ssa.CallInstruction); isCall && p.calleeName(ci.Common()) == "(*lib/comdoc.ComDoc).makeFreeSectors" {
						if bv, isB := boolConst(ci.Common().Args[2]); isB && bv {
							ok = true
						}
					}
				}
			}
		}
		c.Check(ok, c18RuleCutoff, "(*lib/comdoc.ComDoc).addStream short side allocates short sectors", p.Pos(fn.Pos()), "", "a short stream is not allocated from the short-sector table")
	}
	_ = sort.Strings
}

// ------------------------------------------------------------------------------ R18f

// elemPtrStored: stores of a pointer to an element of a slice into a struct field or
// package variable, where that slice (or the field it is assigned to) is grown with append
// somewhere in the same package: after the append reallocates, the stored pointer refers to
// the old backing array and updates through it are lost.
func elemPtrStored(p *Prog) (out []gFinding) {
	// fields that are appended to, per package
	grown := map[string]bool{}
	for _, fn := range p.Funcs {
		for _, b := range fn.Blocks {
			for _, in := range b.Instrs {
				st, ok := in.(*ssa.Store)
				if !ok {
					continue
				}
				k := p.memKey(st.Addr)
				if k == "" {
					continue
				}
				if call, ok := st.Val.(*ssa.Call); ok {
					if bi, ok := call.Call.Value.(*ssa.Builtin); ok && bi.Name() == "append" {
						grown[k] = true
					}
				}
			}
		}
	}
	n := map[*ssa.Function]int{}
	for _, fn := range p.Funcs {
		// local slices that end up in a grown field
		localGrown := map[ssa.Value]string{}
		for _, b := range fn.Blocks {
			for _, in := range b.Instrs {
				if st, ok := in.(*ssa.Store); ok {
					if k := p.memKey(st.Addr); grown[k] {
						for _, lf := range phiLeaves(st.Val, nil, map[*ssa.Phi]bool{}) {
							localGrown[lf.V] = k
						}
						localGrown[st.Val] = k
					}
				}
			}
		}
		for _, b := range fn.Blocks {
			for _, in := range b.Instrs {
				st, ok := in.(*ssa.Store)
				if !ok {
					continue
				}
				// destination: a struct field or a global (long-lived), not a local
				dk := p.memKey(st.Addr)
				if dk == "" {
					continue
				}
				if _, isIA := st.Addr.(*ssa.IndexAddr); isIA {
					continue // element of a slice: the usual worklist/stack idiom
				}
				// value: &slice[i] or &slice[i].field
				v := st.Val
				if fa, ok := v.(*ssa.FieldAddr); ok {
					v = fa.X
				}
				ia, ok := v.(*ssa.IndexAddr)
				if !ok {
					continue
				}
				src := ""
				if l, ok := ia.X.(*ssa.UnOp); ok && l.Op == token.MUL {
					if k := p.memKey(l.X); grown[k] {
						src = k
					}
				}
				if src == "" {
					if k, ok := localGrown[ia.X]; ok {
						src = k
					}
				}
				if src == "" {
					continue
				}
				n[fn]++
				out = append(out, gFinding{Key: fmt.Sprintf("%s keeps &%s[i] in %s#%d", p.FName(fn), src, dk, n[fn]), Pos: p.Pos(st.Pos()),
					Detail: fmt.Sprintf("a pointer to an element of %s is stored in %s, but %s is grown with append elsewhere in the package: once append reallocates, the stored pointer refers to the old copy and updates made through it never reach the table that is written out", src, dk, src)})
			}
		}
	}
	return
}

func c18ElemPtr(c *Ctx) {
	p := c.P
	for _, f := range elemPtrStored(p) {
		if !strings.Contains(f.Key, "lib/comdoc.") {
			continue
		}
		c.Fail("R18f", f.Key, f.Pos, f.Detail)
	}
	c.runControl("R18f element pointer kept across append", "Table).Open", elemPtrStored)
}

// c18TarWhole: DigestMsiTar consumes every member through the tar reader itself.
func c18TarWhole(c *Ctx) {
	p := c.P
	fn := p.Func("lib/authenticode.DigestMsiTar")
	if fn == nil {
		c.Undecided("R18a", "DigestMsiTar", "-", "function not found")
		return
	}
	var tr ssa.Value
	for _, ci := range p.callsIn(fn, "archive/tar.NewReader") {
		tr = ci.Value()
	}
	n := 0
	for _, name := range []string{"io/ioutil.ReadAll", "io.ReadAll", "io.Copy", "io.CopyN", "io.CopyBuffer"} {
		for _, ci := range p.callsIn(fn, name) {
			idx := 0
			if strings.HasPrefix(name, "io.Copy") {
				idx = 1
			}
			n++
			src := stripConv(ci.Common().Args[idx])
			c.Check(tr != nil && src == tr && name != "io.CopyN", "R18a", fmt.Sprintf("lib/authenticode.DigestMsiTar member read#%d is whole", n), p.Pos(ci.Pos()), name+" from the tar reader itself",
				"a member of the MSI tar stream is read through a wrapper or with a length limit ("+name+" of "+short(src.String(), 50)+"): bytes beyond the limit are left in the member and hashed as if they were the next stream, so the tar digest no longer equals the direct digest")
		}
	}
	if n < 2 {
		c.Undecided("R18a", "DigestMsiTar member reads", p.Pos(fn.Pos()), fmt.Sprintf("only %d reads found (2 confirmed by reading)", n))
	}
}

// ------------------------------------------------------------------------------ R18g

// c18Truncate: the file is cut after the last sector in use. Where that is is read off the
// sector allocation table, so the reading has to come after every step of Close that can
// still allocate a sector (the directory stream, the short table, the SAT/MSAT sectors
// themselves); otherwise a table sector allocated at the very end of the file is cut off
// and the header points past EOF.
func c18Truncate(c *Ctx, fns []*ssa.Function) {
	p := c.P
	c.Rule("R18g", "Close reads the end of the last used sector off the allocation table after every step that can allocate", 1)
	const satKey = "f:lib/comdoc.ComDoc.SAT"
	inPkg := map[*ssa.Function]bool{}
	for _, fn := range fns {
		inPkg[fn] = true
	}
	writes := map[*ssa.Function]bool{}
	reads := map[*ssa.Function]bool{}
	isElemLoad := func(in ssa.Instruction) bool {
		u, ok := in.(*ssa.UnOp)
		if !ok || u.Op != token.MUL {
			return false
		}
		ia, ok := u.X.(*ssa.IndexAddr)
		return ok && p.memKey(ia) == satKey
	}
	for _, fn := range fns {
		for _, b := range fn.Blocks {
			for _, in := range b.Instrs {
				if st, ok := in.(*ssa.Store); ok && p.memKey(st.Addr) == satKey {
					writes[fn] = true
				}
				if isElemLoad(in) {
					reads[fn] = true
				}
			}
		}
	}
	for changed := true; changed; {
		changed = false
		for _, fn := range fns {
			for _, b := range fn.Blocks {
				for _, in := range b.Instrs {
					ci, ok := in.(ssa.CallInstruction)
					if !ok {
						continue
					}
					sc := ci.Common().StaticCallee()
					if sc == nil || !inPkg[sc] {
						continue
					}
					if writes[sc] && !writes[fn] {
						writes[fn], changed = true, true
					}
					if reads[sc] && !reads[fn] {
						reads[fn], changed = true, true
					}
				}
			}
		}
	}
	cl := p.Func("lib/comdoc.(*ComDoc).Close")
	if cl == nil {
		c.Undecided("R18g", "(*ComDoc).Close", "-", "function not found")
		return
	}
	var truncs, muts, rds []ssa.Instruction
	for _, b := range cl.Blocks {
		for _, in := range b.Instrs {
			if isElemLoad(in) {
				rds = append(rds, in)
			}
			ci, ok := in.(ssa.CallInstruction)
			if !ok {
				continue
			}
			com := ci.Common()
			if (com.IsInvoke() && com.Method.Name() == "Truncate") || (com.StaticCallee() != nil && com.StaticCallee().Name() == "Truncate" && !inPkg[com.StaticCallee()]) {
				truncs = append(truncs, in)
				continue
			}
			if sc := com.StaticCallee(); sc != nil && inPkg[sc] {
				if writes[sc] {
					muts = append(muts, in)
				} else if reads[sc] {
					rds = append(rds, in)
				}
			}
		}
	}
	if len(truncs) == 0 {
		c.PassTrivial("R18g", "(*ComDoc).Close truncation", p.Pos(cl.Pos()), "Close does not truncate the file")
		return
	}
	for i, t := range truncs {
		key := fmt.Sprintf("(*ComDoc).Close Truncate#%d", i+1)
		args := t.(ssa.CallInstruction).Common().Args
		arg := args[len(args)-1]
		// the reads the truncation point hangs on: by data, or through a branch condition
		var feeding []ssa.Instruction
		for _, r := range rds {
			rv, isV := r.(ssa.Value)
			if !isV {
				continue
			}
			feeds := dependsOn(arg, func(x ssa.Value) bool { return x == rv })
			if !feeds {
				for _, b := range cl.Blocks {
					if ifi, ok := b.Instrs[len(b.Instrs)-1].(*ssa.If); ok && dependsOn(ifi.Cond, func(x ssa.Value) bool { return x == rv }) && reachableAfter(cl, ifi, t, nil, nil) {
						feeds = true
					}
				}
			}
			if feeds {
				feeding = append(feeding, r)
			}
		}
		if len(feeding) == 0 {
			c.Undecided("R18g", key, p.Pos(t.Pos()), "the truncation offset does not hang on any read of the sector allocation table")
			continue
		}
		bad := ""
		for _, m := range muts {
			if !reachableAfter(cl, m, t, nil, nil) {
				continue
			}
			fresh := false
			for _, r := range feeding {
				if reachableAfter(cl, m, r, nil, nil) && reachableAfter(cl, r, t, nil, nil) {
					fresh = true
				}
			}
			if !fresh {
				bad = fmt.Sprintf("%s at %s", p.calleeName(m.(ssa.CallInstruction).Common()), p.Pos(m.Pos()))
			}
		}
		c.Check(bad == "", "R18g", key, p.Pos(t.Pos()), fmt.Sprintf("%d table reads feed the offset, all after the %d allocating steps", len(feeding), len(muts)),
			"the truncation offset is read off the allocation table before "+bad+", which can still allocate a sector: a table sector placed after all data is cut off and the header then lists a sector beyond the end of the file")
	}
}

// msiWalker: the recursive walk over an MSI storage that spec names today - by name while the
// name exists, otherwise by what it does: a function of lib/authenticode that lists a storage
// (ComDoc.ListDir) and calls itself, told apart by its output (tar headers / the metadata
// encoder / neither).
func msiWalker(p *Prog, spec string) *ssa.Function {
	if fn := p.Func(spec); fn != nil {
		return fn
	}
	kind := "hash"
	switch {
	case strings.HasSuffix(spec, "msiToTarDir"):
		kind = "tar"
	case strings.HasSuffix(spec, "prehashMsiDir"):
		kind = "prehash"
	}
	var found *ssa.Function
	for _, fn := range p.pkgFuncs("lib/authenticode") {
		if len(p.callsIn(fn, "(*lib/comdoc.ComDoc).ListDir")) == 0 {
			continue
		}
		rec := false
		for _, ci := range callsOf(fn) {
			if ci.Common().StaticCallee() == fn {
				rec = true
			}
		}
		if !rec {
			continue
		}
		k := "hash"
		if len(p.callsIn(fn, "(*archive/tar.Writer).WriteHeader")) > 0 {
			k = "tar"
		} else if len(p.callsIn(fn, "lib/authenticode.prehashMsiDirent")) > 0 {
			k = "prehash"
		}
		if k == kind {
			if found != nil {
				return nil
			}
			found = fn
		}
	}
	return found
}
