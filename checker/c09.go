package main

// C09 — upload stream, chunking and transport never change what gets signed.
//
// Chunk-size independence of the streaming hashers and equality of client- and server-side
// digests are behavioural and not decided. Decided: the structural conditions for the same
// bytes being offered on every attempt and decoded by the peer.

import (
	"fmt"
	"go/token"
	"go/types"
	"sort"
	"strings"

	"golang.org/x/tools/go/ssa"
)

func init() {
	register(&propDef{
		ID: "C09",
		Meta: propMeta{
			Explanation: "Decides structural necessary conditions (nothing is executed): (R09a) in every function reachable from a Transformer.GetReader implementation, each sequential read of the source file (the file handed to a callee as an io.Reader, returned as the upload stream, or read directly) is preceded on every path — since function entry, since the previous sequential read and since any seek-to-end — by a Seek with whence 0 on that same file, so that the stream is the same on every call; implementations that only use ReadAt need nothing; (R09b) remotecmd.doRequest builds a fresh request (and through buildRequest obtains a fresh body from GetReader) inside the failover loop and sends exactly that request; the 406 fallback and every retry go through the same construction; (R09c) codec tables agree: the encodings setupCompression can produce are exactly those decompress can read, every preference key is among them, and the advertised Accept-Encoding list is exactly the preference keys; (R09d) header and body agree: wherever a Content-Encoding header is set, the value is the very value handed to the compressor for that body; (R09e) each zip-based server-side signer reads its input once, through zipslicer.ReadZipTar on the request stream; (R09f) where a transformer slurps a non-seekable source through io.LimitReader with a constant cap, a length test that the capped result can satisfy follows (no silent truncation of what is uploaded); (R09g) the reader wrapped by compresshttp.readBlocker is touched only by its Read method behind the closed-flag test and by Close, so an abandoned attempt's compressor cannot keep reading the shared source. (R09h) in doRequest a plain Close of the request body lies on every path from Do to the block that builds the next attempt (a deferred Close runs only when the function returns, so an abandoned attempt would go on reading the shared file); (R09i) no deferred function assigns to a named error result a value that may be nil without testing it or the result first, module-wide; (R09j) the loop of blockMap.AddFile that reads an appx member leaves towards the success return only on the io.EOF edge. (R09k) every function stored into http.Request.GetBody returns a reader made inside it, not a captured reader value, so a replay by the HTTP stack sends the whole body again. (R09m) every return of compresshttp.(*readBlocker).Close that can carry a nil error comes after the store that sets its closed flag, so the compressor goroutine of a finished attempt cannot read the shared input while the next attempt re-reads it. (R09l) the flag digestApkStream passes to merkleHasher.Finish is the constant that selects the branch of Finish calling Directory.WriteDirectory (derived from Finish), the serialiser whose end-of-directory record (*Digest).Sign patches into the file: the record digested is the record written. (R09n) no function reachable from a Transformer's GetReader takes a bytes.Reader / bytes.Buffer / strings.Reader / bufio.Reader out of a field of a struct the transformer owns without rewinding it in the same function: a second GetReader (failover, 406 fallback) must stream the same bytes.",
			NotDecided:  "independence of the block hashers (APK merkle, appx block map, PE page hashes) from Write sizes; equality of the digest computed from the tar stream and from the patched file; correctness of gzip/snappy; that a second GetReader call does not race with a still-running producer goroutine of the first.",
			Assumptions: []string{"os.File.Seek(0, io.SeekStart) repositions reliably", "net/http sends the body it is given once"},
		},
		Run: runC09,
	})
}

func runC09(c *Ctx) {
	defer round7C09(c)
	c.Rule("R09a", "every sequential read of the source file on the upload path is preceded by a rewind of that file", 6)
	c.Rule("R09b", "a fresh request and body are built for every attempt and that request is the one sent", 4)
	c.Rule("R09c", "compression codec tables agree between encoder, decoder, preferences and advertisement", 5)
	c.Rule("R09d", "the Content-Encoding header names the encoding actually applied to the body", 3)
	c.Rule("R09e", "zip-based server-side signers read the upload once through ReadZipTar", 4)
	c.Rule("R09f", "a capped slurp of the source on the upload path detects the cap being hit", 1)
	c.Rule("R09g", "compresshttp.readBlocker's closed flag guards every access to the wrapped reader", 3)
	c09Round2(c)
	c09Rewind(c)
	c09PerAttempt(c)
	c09Codecs(c)
	c09HeaderBody(c)
	c09SingleRead(c)
	c09CappedReads(c)
	c09ReadBlocker(c)
}

var ioReader *types.Interface

func isIOReader(t types.Type) bool {
	n, ok := t.(*types.Named)
	return ok && n.Obj().Pkg() != nil && n.Obj().Pkg().Path() == "io" && n.Obj().Name() == "Reader"
}

func isSeekable(t types.Type) bool {
	s := t.String()
	return s == "*os.File" || s == "io.ReadSeeker" || s == "io.ReadSeekCloser"
}

// fileIdent: identity of a file expression (field-based for fields, the SSA value otherwise).
func (p *Prog) fileIdent(v ssa.Value) string {
	v = stripConv(v)
	if k := p.memKey(v); k != "" {
		return k
	}
	if tn, f, _ := p.fieldLoad(v); tn != "" {
		return "f:" + tn + "." + f
	}
	return fmt.Sprintf("v:%p", v)
}

func c09Rewind(c *Ctx) {
	p := c.P
	iface := p.ifaceNamed("signers", "Transformer")
	if iface == nil {
		c.Undecided("R09a", "signers.Transformer", "-", "interface not found")
		return
	}
	var roots []*ssa.Function
	impls := p.implementersOf(iface)
	for _, t := range impls {
		if f := p.methodOf(t, "GetReader"); f != nil {
			roots = append(roots, f)
		}
	}
	c.Check(len(roots) >= 6, "R09a", "Transformer implementations", "-", fmt.Sprintf("%d GetReader implementations", len(roots)), fmt.Sprintf("only %d implementations of signers.Transformer found (6 confirmed by reading)", len(roots)))
	reachSet := p.moduleReachOpt(roots, false)
	var fns []*ssa.Function
	for f := range reachSet {
		// the server-side halves are reached through shared helpers only; keep client-side packages
		fns = append(fns, f)
	}
	sort.Slice(fns, func(i, j int) bool { return p.FName(fns[i]) < p.FName(fns[j]) })
	nSites := 0
	for _, fn := range fns {
		type use struct {
			in    ssa.Instruction
			ident string
			what  string
		}
		var uses []use
		seeks := map[string][]ssa.CallInstruction{}    // ident -> Seek(.., 0) calls
		seekEnds := map[string][]ssa.CallInstruction{} // ident -> Seek with another whence
		for _, b := range fn.Blocks {
			for _, in := range b.Instrs {
				switch x := in.(type) {
				case ssa.CallInstruction:
					cc := x.Common()
					name := p.calleeName(cc)
					if name == "(*os.File).Seek" || (cc.IsInvoke() && cc.Method.Name() == "Seek") {
						recv := cc.Value
						if !cc.IsInvoke() {
							recv = cc.Args[0]
						}
						wh := cc.Args[len(cc.Args)-1]
						id := p.fileIdent(recv)
						if isIntConst(wh, 0) {
							seeks[id] = append(seeks[id], x)
						} else {
							seekEnds[id] = append(seekEnds[id], x)
						}
						continue
					}
					if name == "(*os.File).Read" {
						uses = append(uses, use{in, p.fileIdent(cc.Args[0]), "direct Read"})
						continue
					}
					// handed over as an io.Reader
					sig := cc.Signature()
					args := cc.Args
					off := 0
					if !cc.IsInvoke() && sig.Recv() != nil {
						off = 1
					}
					for i := 0; i < sig.Params().Len() && i+off < len(args); i++ {
						if !isIOReader(sig.Params().At(i).Type()) {
							continue
						}
						src := stripConv(args[i+off])
						if isSeekable(src.Type()) {
							uses = append(uses, use{in, p.fileIdent(src), "passed as io.Reader to " + p.describeCall(x)})
						}
					}
				case *ssa.Return:
					for _, rv := range x.Results {
						if !isIOReader(rv.Type()) {
							continue
						}
						src := stripConv(rv)
						if isSeekable(src.Type()) {
							uses = append(uses, use{in, p.fileIdent(src), "returned as the upload stream"})
						}
					}
				}
			}
		}
		n := 0
		for _, u := range uses {
			n++
			nSites++
			key := fmt.Sprintf("%s sequential-read#%d", p.FName(fn), n)
			c.Analysed(p.FName(fn))
			// rewinds of this file that precede the use
			del := map[edge]bool{}
			sameBlockOK := false
			for _, s := range seeks[u.ident] {
				if s.Block() == u.in.Block() {
					if instrIndex(s) < instrIndex(u.in) {
						// nothing that moves the position may sit between the two in this block
						clean := true
						for _, o := range uses {
							if o.in != u.in && o.ident == u.ident && o.in.Block() == s.Block() && instrIndex(o.in) > instrIndex(s) && instrIndex(o.in) < instrIndex(u.in) {
								clean = false
							}
						}
						for _, o := range seekEnds[u.ident] {
							if o.Block() == s.Block() && instrIndex(o) > instrIndex(s) && instrIndex(o) < instrIndex(u.in) {
								clean = false
							}
						}
						if clean {
							sameBlockOK = true
						}
					}
					continue
				}
				for si := range s.Block().Succs {
					del[edge{s.Block().Index, si}] = true
				}
			}
			if sameBlockOK {
				c.Pass("R09a", key, p.Pos(u.in.Pos()), u.what+": rewound just before")
				continue
			}
			// starting points: entry, other sequential reads of the file, seeks to the end
			starts := []*ssa.BasicBlock{fn.Blocks[0]}
			for _, o := range uses {
				if o.in != u.in && o.ident == u.ident {
					starts = append(starts, succsFrom(o.in.Block(), del)...)
					if o.in.Block() == u.in.Block() && instrIndex(o.in) < instrIndex(u.in) {
						starts = append(starts, u.in.Block())
					}
				}
			}
			for _, o := range seekEnds[u.ident] {
				starts = append(starts, succsFrom(o.Block(), del)...)
				if o.Block() == u.in.Block() && instrIndex(o) < instrIndex(u.in) {
					starts = append(starts, u.in.Block())
				}
			}
			// a rewind in the entry block itself protects the entry start
			var st2 []*ssa.BasicBlock
			for _, sb := range starts {
				blocked := false
				if sb == fn.Blocks[0] {
					for _, s := range seeks[u.ident] {
						if s.Block() == sb {
							blocked = true
						}
					}
				}
				if !blocked {
					st2 = append(st2, sb)
				}
			}
			pred := map[int]int{}
			seen := reach(fn, st2, del, pred)
			// a use in a rewind block after the rewind was handled above; in a rewind block before it: reachable
			if seen[u.in.Block().Index] {
				c.Fail("R09a", key, p.Pos(u.in.Pos()), fmt.Sprintf("the source file (%s) is read sequentially here (%s) without a Seek(…, io.SeekStart) on it since the function was entered / it was last read / it was sought to its end: a second GetReader call (failover, 406 fallback) or this very call uploads from wherever the previous read stopped", u.ident, u.what), p.witness(fn, pred, u.in.Block().Index)...)
			} else {
				c.Pass("R09a", key, p.Pos(u.in.Pos()), u.what+": a rewind lies on every path")
			}
		}
	}
	if nSites < 5 {
		c.Undecided("R09a", "sequential read sites", "-", fmt.Sprintf("only %d found (5 confirmed by reading)", nSites))
	}
}

func c09PerAttempt(c *Ctx) {
	p := c.P
	dr := p.Func("cmdline/remotecmd.(*client).doRequest")
	br := p.Func("cmdline/remotecmd.(*client).buildRequest")
	if dr == nil || br == nil {
		c.Undecided("R09b", "doRequest/buildRequest", "-", "function not found")
		return
	}
	c.Analysed(p.FName(dr))
	c.Analysed(p.FName(br))
	builds := p.callsIn(dr, "(*cmdline/remotecmd.client).buildRequest")
	dos := p.callsIn(dr, "(*net/http.Client).Do")
	ok := len(builds) == 1 && len(dos) == 1
	if ok {
		ok = inCycleWith(dr, builds[0].Block(), nil) && inCycleWith(dr, dos[0].Block(), nil)
	}
	c.Check(ok, "R09b", "doRequest builds the request inside the failover loop", p.Pos(dr.Pos()), "", "the request (and with it the body reader) is not rebuilt for every attempt: a retry would resend a body that has already been consumed")
	if len(builds) == 1 && len(dos) == 1 {
		call, idx := resultOf(dos[0].Common().Args[1])
		c.Check(call == builds[0] && idx == 0, "R09b", "doRequest sends the request it just built", p.Pos(dos[0].Pos()), "", "the request handed to Do is not the result of this iteration's buildRequest")
		c.Check(!avoidable(dr, builds[0], dos[0]), "R09b", "no attempt without a rebuild", p.Pos(dos[0].Pos()), "", "Do can be reached on a path that skips buildRequest")
	}
	// buildRequest: body from GetReader of the given getter, unconditionally when there is one
	var getter ssa.CallInstruction
	for _, b := range br.Blocks {
		for _, in := range b.Instrs {
			if ci, ok := in.(ssa.CallInstruction); ok && ci.Common().IsInvoke() && ci.Common().Method.Name() == "GetReader" {
				getter = ci
			}
		}
	}
	okBody := false
	if getter != nil {
		for _, b := range br.Blocks {
			for _, in := range b.Instrs {
				st, ok := in.(*ssa.Store)
				if !ok {
					continue
				}
				if tn, f, _ := p.fieldAddr(st.Addr); tn == "net/http.Request" && f == "Body" {
					if dependsOn(st.Val, func(x ssa.Value) bool {
						ex, ok := x.(*ssa.Extract)
						return ok && ex.Tuple == getter.Value() && ex.Index == 0
					}) {
						okBody = true
					}
				}
			}
		}
	}
	c.Check(okBody, "R09b", "buildRequest takes the body from GetReader", p.Pos(br.Pos()), "", "the request body is not the stream returned by this call's GetReader")
}

// switchCases: string constants a parameter is compared with in fn (the case labels).
func switchCases(fn *ssa.Function, param string) map[string]bool {
	out := map[string]bool{}
	var pv ssa.Value
	for _, pa := range fn.Params {
		if pa.Name() == param {
			pv = pa
		}
	}
	for _, b := range fn.Blocks {
		for _, in := range b.Instrs {
			bo, ok := in.(*ssa.BinOp)
			if !ok || bo.Op != token.EQL {
				continue
			}
			if bo.X == pv {
				if s, ok := constString(bo.Y); ok {
					out[s] = true
				}
			} else if bo.Y == pv {
				if s, ok := constString(bo.X); ok {
					out[s] = true
				}
			}
		}
	}
	return out
}

func c09Codecs(c *Ctx) {
	p := c.P
	const rel = "lib/compresshttp"
	sc := p.Func(rel + ".setupCompression")
	dc := p.Func(rel + ".decompress")
	if sc == nil || dc == nil {
		c.Undecided("R09c", "setupCompression/decompress", "-", "function not found")
		return
	}
	c.Analysed(p.FName(sc))
	c.Analysed(p.FName(dc))
	enc, dec := switchCases(sc, "encoding"), switchCases(dc, "encoding")
	same := len(enc) == len(dec) && len(enc) >= 4
	for k := range enc {
		if !dec[k] {
			same = false
		}
	}
	c.Check(same, "R09c", "encoder and decoder accept the same encodings", p.Pos(sc.Pos()), fmt.Sprint(sortedKeys(enc)), fmt.Sprintf("setupCompression handles %v but decompress handles %v: a negotiated encoding has no decoder (or the other way round)", sortedKeys(enc), sortedKeys(dec)))
	keys, _, ok := p.constLiteralKeys(rel, "prefs")
	if !ok {
		c.Undecided("R09c", "prefs", "-", "preference table literal not constant-foldable")
		return
	}
	for _, k := range keys {
		c.Check(enc[k] && dec[k], "R09c", "preferred encoding "+k+" has a codec", "-", "", "the preference table offers "+k+", which the encoder or decoder does not implement")
	}
	// advertisement
	if pk := p.Pkg(rel); pk != nil {
		if k, ok := pk.Types.Scope().Lookup("AcceptedEncodings").(*types.Const); ok {
			adv := map[string]bool{}
			for _, t := range strings.Split(strings.Trim(k.Val().ExactString(), "\""), ",") {
				adv[strings.TrimSpace(t)] = true
			}
			okAdv := len(adv) == len(keys)
			for _, kk := range keys {
				if !adv[kk] {
					okAdv = false
				}
			}
			c.Check(okAdv, "R09c", "advertised encodings are the preference keys", "-", fmt.Sprint(sortedKeys(adv)), fmt.Sprintf("the server advertises %v but prefers %v", sortedKeys(adv), keys))
		} else {
			c.Undecided("R09c", "AcceptedEncodings", "-", "constant not found")
		}
	}
	// selectEncoding only returns preference keys (or nothing)
	if se := p.Func(rel + ".selectEncoding"); se != nil {
		c.Analysed(p.FName(se))
		ok := len(p.callsIn(se, "strings.Split")) >= 1
		look := false
		for _, b := range se.Blocks {
			for _, in := range b.Instrs {
				if lk, isL := in.(*ssa.Lookup); isL && p.memKey(lk.X) == "g:lib/compresshttp.prefs" {
					look = true
				}
			}
		}
		c.Check(ok && look, "R09c", "selectEncoding chooses among the preference keys", p.Pos(se.Pos()), "", "selectEncoding no longer picks its result through the preference table")
	}
}

// constLiteralKeys: keys of a package-level map literal with constant string keys.
func (p *Prog) constLiteralKeys(rel, name string) ([]string, []string, bool) {
	keys, vals, ok := p.constLiteral2(rel, name)
	return keys, vals, ok
}

func c09HeaderBody(c *Ctx) {
	p := c.P
	n := 0
	nf := map[*ssa.Function]int{}
	for _, fn := range p.pkgFuncs("lib/compresshttp") {
		// Header.Set(contentEncoding, X)
		for _, ci := range p.callsIn(fn, "(net/http.Header).Set") {
			if s, ok := constString(ci.Common().Args[1]); !ok || s != "Content-Encoding" {
				continue
			}
			n++
			nf[fn]++
			val := ci.Common().Args[2]
			key := fmt.Sprintf("%s Content-Encoding#%d", p.FName(fn), nf[fn])
			c.Analysed(p.FName(fn))
			// the same value (or the same field) reaches compress/setupCompression in this function or its closures
			id := p.fileIdent(val)
			found := false
			for _, f := range withClosures(fn) {
				for _, cc := range p.callsIn(f, "lib/compresshttp.compress", "lib/compresshttp.setupCompression") {
					a := cc.Common().Args[0]
					if a == val || p.fileIdent(a) == id {
						found = true
					}
					// captured variable (by reference: both sides load the same cell)
					if l, ok := a.(*ssa.UnOp); ok && l.Op == token.MUL {
						if fv, ok := l.X.(*ssa.FreeVar); ok {
							for i, v := range f.FreeVars {
								if v != fv {
									continue
								}
								mc := closureMaker(fn, f)
								if mc == nil || i >= len(mc.Bindings) {
									continue
								}
								if vl, ok := val.(*ssa.UnOp); ok && vl.Op == token.MUL && vl.X == mc.Bindings[i] {
									found = true
								}
							}
						}
					}
					if fv, ok := a.(*ssa.FreeVar); ok {
						for i, v := range f.FreeVars {
							if v == fv {
								if mc := closureMaker(fn, f); mc != nil && i < len(mc.Bindings) && mc.Bindings[i] == val {
									found = true
								}
							}
						}
					}
				}
			}
			// methods of one type share the field (responseCompressor.encoding)
			if !found && strings.HasPrefix(id, "f:") {
				for _, g := range p.pkgFuncs("lib/compresshttp") {
					for _, cc := range p.callsIn(g, "lib/compresshttp.setupCompression") {
						if p.fileIdent(cc.Common().Args[0]) == id {
							found = true
						}
					}
				}
			}
			c.Check(found, "R09d", key, p.Pos(ci.Pos()), "the header value is the value given to the compressor", "the Content-Encoding header is set from a value that is not the one the body is compressed with: the peer decodes with the wrong codec")
		}
	}
	if n < 3 {
		c.Undecided("R09d", "Content-Encoding sites", "-", fmt.Sprintf("only %d found (4 confirmed by reading)", n))
	}
}

func closureMaker(outer, inner *ssa.Function) *ssa.MakeClosure {
	for _, b := range outer.Blocks {
		for _, in := range b.Instrs {
			if mc, ok := in.(*ssa.MakeClosure); ok && mc.Fn == ssa.Value(inner) {
				return mc
			}
		}
	}
	return nil
}

func c09SingleRead(c *Ctx) {
	p := c.P
	n := 0
	for _, fn := range p.Funcs {
		cs := p.callsIn(fn, "lib/zipslicer.ReadZipTar")
		if len(cs) == 0 {
			continue
		}
		n++
		c.Analysed(p.FName(fn))
		key := p.FName(fn) + " reads the upload once"
		ok := len(cs) == 1 && !inCycleWith(fn, cs[0].Block(), nil)
		// the argument is the function's reader parameter
		if ok {
			_, isParam := stripConv(cs[0].Common().Args[0]).(*ssa.Parameter)
			ok = isParam
		}
		// and nothing else reads that parameter
		if ok {
			pa := stripConv(cs[0].Common().Args[0]).(*ssa.Parameter)
			for _, r := range *pa.Referrers() {
				if r == ssa.Instruction(cs[0].(ssa.Instruction)) {
					continue
				}
				switch x := r.(type) {
				case *ssa.DebugRef, *ssa.MakeInterface, *ssa.ChangeInterface:
				case ssa.CallInstruction:
					// draining what is left of the upload after everything was processed
					isDrain := p.calleeName(x.Common()) == "io.Copy" && len(x.Common().Args) == 2 && x.Common().Args[1] == ssa.Value(pa)
					if isDrain {
						dst := stripConv(x.Common().Args[0])
						l, isLoad := dst.(*ssa.UnOp)
						g, isG := (ssa.Value)(nil), false
						if isLoad {
							g, isG = l.X.(*ssa.Global)
						}
						isDrain = isG && g.Name() == "Discard"
					}
					if !isDrain || !reachableAfter(fn, cs[0], x, nil, nil) || reachableAfter(fn, x, cs[0], nil, nil) {
						ok = false
					}
				default:
					ok = false
				}
			}
		}
		c.Check(ok, "R09e", key, p.Pos(cs[0].Pos()), "ReadZipTar(r) is the only consumer of the request stream", "the upload stream is consumed by something besides the single ReadZipTar call (or ReadZipTar is called repeatedly): the digest is computed over a stream that has already been partly read")
	}
	if n < 4 {
		c.Undecided("R09e", "ReadZipTar callers", "-", fmt.Sprintf("only %d found (4 confirmed by reading)", n))
	}
}

// ------------------------------------------------------------------------------ R09f / R09g

// c09CappedReads: on the upload path (transformer constructors and GetReader implementations
// and what they reach) a capped slurp of the source — ReadAll(LimitReader(src, N)) — must be
// followed by a test of the result's length that can actually detect the cap being hit.
func c09CappedReads(c *Ctx) {
	p := c.P
	var roots []*ssa.Function
	for f := range p.registeredSignerFuncs("Transform") {
		roots = append(roots, f)
	}
	if iface := p.ifaceNamed("signers", "Transformer"); iface != nil {
		for _, t := range p.implementersOf(iface) {
			if f := p.methodOf(t, "GetReader"); f != nil {
				roots = append(roots, f)
			}
		}
	}
	n := 0
	for fn := range p.moduleReachOpt(roots, false) {
		for _, ci := range p.callsIn(fn, "io.ReadAll", "io/ioutil.ReadAll") {
			// the other spelling of a cap: ReadAll(&io.LimitedReader{R: src, N: cap}); what is left of N says
			// whether the cap was reached (it goes down to 0, never below)
			if mi, ok := ci.Common().Args[0].(*ssa.MakeInterface); ok {
				if a, ok := mi.X.(*ssa.Alloc); ok && strings.HasSuffix(derefType(a.Type()).String(), "io.LimitedReader") {
					n++
					key := fmt.Sprintf("%s capped-read#%d", p.FName(fn), n)
					c.Analysed(p.FName(fn))
					detect, seen := false, ""
					for _, ref := range *a.Referrers() {
						fa, ok := ref.(*ssa.FieldAddr)
						if !ok {
							continue
						}
						if _, f, _ := p.fieldAddr(fa); f != "N" {
							continue
						}
						for _, r2 := range *fa.Referrers() {
							ld, ok := r2.(*ssa.UnOp)
							if !ok {
								continue
							}
							for _, r3 := range *ld.Referrers() {
								bo, ok := r3.(*ssa.BinOp)
								if !ok {
									continue
								}
								if k, isK := constInt(bo.Y); isK && bo.X == ssa.Value(ld) {
									seen = fmt.Sprintf("N %s %d", bo.Op, k)
									if (bo.Op == token.EQL && k == 0) || (bo.Op == token.LEQ && k >= 0) || (bo.Op == token.LSS && k >= 1) {
										detect = true
									}
								}
							}
						}
					}
					// or a test of the result's length, as for LimitReader (not examined further here)
					c.Check(detect, "R09f", key, p.Pos(ci.Pos()), "remaining count tested against zero: "+seen,
						fmt.Sprintf("the source is slurped through an io.LimitedReader and the only test of what remains of its count is %q, which can never be true (N stops at 0): an input larger than the cap is silently truncated and the truncated stream is what gets uploaded and signed", seen))
					continue
				}
			}
			lr, ok := stripConv(ci.Common().Args[0]).(*ssa.Call)
			if !ok || p.calleeName(lr.Common()) != "io.LimitReader" {
				continue
			}
			limit, isK := constInt(lr.Common().Args[1])
			n++
			key := fmt.Sprintf("%s capped-read#%d", p.FName(fn), n)
			c.Analysed(p.FName(fn))
			if !isK {
				c.PassTrivial("R09f", key, p.Pos(ci.Pos()), "limit is not a constant (a sized region, not a cap)")
				continue
			}
			// comparisons of len(result) with a constant
			var res ssa.Value
			for _, r := range *ci.Value().Referrers() {
				if ex, ok := r.(*ssa.Extract); ok && ex.Index == 0 {
					res = ex
				}
			}
			detect := false
			seenCmp := ""
			if res != nil {
				for _, r := range *res.Referrers() {
					call, ok := r.(*ssa.Call)
					if !ok {
						continue
					}
					bi, ok := call.Call.Value.(*ssa.Builtin)
					if !ok || bi.Name() != "len" {
						continue
					}
					for _, rr := range *call.Referrers() {
						bo, ok := rr.(*ssa.BinOp)
						if !ok {
							continue
						}
						k, isK := constInt(bo.Y)
						op := bo.Op
						if !isK {
							if k2, ok2 := constInt(bo.X); ok2 {
								k, isK = k2, true
								switch op {
								case token.LSS:
									op = token.GTR
								case token.GTR:
									op = token.LSS
								case token.LEQ:
									op = token.GEQ
								case token.GEQ:
									op = token.LEQ
								}
							}
						}
						if !isK {
							continue
						}
						seenCmp = fmt.Sprintf("len %s %d", op, k)
						switch op {
						case token.EQL, token.GEQ:
							if k <= limit && k > 0 {
								detect = true
							}
						case token.GTR:
							if k < limit {
								detect = true
							}
						}
					}
				}
			}
			c.Check(detect, "R09f", key, p.Pos(ci.Pos()), fmt.Sprintf("limit %d, test %s", limit, seenCmp),
				fmt.Sprintf("the source is slurped through io.LimitReader(…, %d) and the only length test is %q, which a result of at most %d bytes can never satisfy: an input larger than the cap is silently truncated and the truncated stream is what gets uploaded and signed", limit, seenCmp, limit))
		}
	}
	if n < 1 {
		c.Undecided("R09f", "capped reads on the upload path", "-", "none found (1 confirmed by reading: signers/pgp.transform)")
	}
}

// c09ReadBlocker: the closed flag of compresshttp.readBlocker guards every access to the reader
// it wraps: only Read (behind the flag test) and Close (type assertion to io.Closer) touch it.
func c09ReadBlocker(c *Ctx) {
	p := c.P
	n := 0
	for _, fn := range p.pkgFuncs("lib/compresshttp") {
		k := 0
		for _, b := range fn.Blocks {
			for _, in := range b.Instrs {
				var addr ssa.Value
				switch x := in.(type) {
				case *ssa.UnOp:
					if x.Op == token.MUL {
						addr = x.X
					}
				case *ssa.Store:
					addr = x.Addr
				}
				if addr == nil {
					continue
				}
				tn, f, _ := p.fieldAddr(addr)
				if tn != "lib/compresshttp.readBlocker" || f != "Reader" {
					continue
				}
				n++
				k++
				key := fmt.Sprintf("%s uses readBlocker.Reader#%d", p.FName(fn), k)
				c.Analysed(p.FName(fn))
				if _, isStore := in.(*ssa.Store); isStore {
					c.Pass("R09g", key, p.Pos(in.Pos()), "construction")
					continue
				}
				load := in.(*ssa.UnOp)
				ok := true
				why := ""
				for _, r := range *load.Referrers() {
					switch y := r.(type) {
					case *ssa.DebugRef:
					case *ssa.TypeAssert:
						if !strings.HasSuffix(y.AssertedType.String(), "io.Closer") {
							ok, why = false, "asserted to "+y.AssertedType.String()
						}
					case ssa.CallInstruction:
						if y.Common().IsInvoke() && y.Common().Method.Name() == "Read" && y.Common().Value == ssa.Value(load) && fn.Name() == "Read" {
							// behind the flag test
							g := Guard{Name: "closed == 0", Match: func(f Fact) bool {
								bo, ok := f.V.(*ssa.BinOp)
								if !ok {
									return false
								}
								call, _ := resultOf(bo.X)
								if call == nil || !strings.HasPrefix(p.calleeName(call.Common()), "sync/atomic.Load") {
									return false
								}
								return (bo.Op == token.NEQ && f.Kind == IsFalse) || (bo.Op == token.EQL && f.Kind == IsTrue)
							}}
							if missing, _ := p.unguardedFromEntry(fn, y, g); len(missing) > 0 {
								ok, why = false, "Read without the closed-flag test"
							}
						} else {
							ok, why = false, "handed to "+p.describeCall(y)
						}
					default:
						ok, why = false, fmt.Sprintf("used by %T", r)
					}
				}
				c.Check(ok, "R09g", key, p.Pos(in.Pos()), "guarded Read / Close only", "the reader wrapped by readBlocker is reached on a path that does not test the closed flag for every read ("+why+"): after a failed attempt the abandoned compressor goroutine keeps reading the shared source file while the next attempt has rewound it, and the next server receives a stream with a hole in it")
			}
		}
	}
	if n < 3 {
		c.Undecided("R09g", "readBlocker.Reader accesses", "-", fmt.Sprintf("only %d found (3 confirmed by reading: construction, Read, Close)", n))
	}
}
