package main

// Rules added after the fourth seeding round, second part: R01k (stale slice header), R01l
// (= the Debian part of R08b), R05p, R05q, R05r, R08j, R09l.

import (
	"fmt"
	"go/constant"
	"go/token"
	"go/types"
	"sort"
	"strings"

	"golang.org/x/tools/go/ssa"
)

// ------------------------------------------------------------------------------ R01k

// storesField: does fn (or a module callee that receives the same object, to the given depth) store
// into field #idx of the struct its parameter #pi points to? known gives the boolean parameters whose
// value the call site fixes: blocks that only the other outcome reaches are left out.
func (p *Prog) storesField(fn *ssa.Function, pi int, idx int, depth int, known map[int]bool, seen map[*ssa.Function]bool) bool {
	if fn == nil || len(fn.Blocks) == 0 || seen[fn] || pi >= len(fn.Params) {
		return false
	}
	seen[fn] = true
	defer delete(seen, fn)
	par := ssa.Value(fn.Params[pi])
	del := map[edge]bool{}
	if len(known) > 0 {
		for _, b := range fn.Blocks {
			ifi, ok := b.Instrs[len(b.Instrs)-1].(*ssa.If)
			if !ok {
				continue
			}
			for si, truth := range []bool{true, false} {
				for _, f := range factsOf(ifi.Cond, truth) {
					for j, val := range known {
						if j < len(fn.Params) && f.V == ssa.Value(fn.Params[j]) && (f.Kind == IsTrue || f.Kind == IsFalse) && (f.Kind == IsTrue) != val {
							del[edge{b.Index, si}] = true
						}
					}
				}
			}
		}
	}
	live := reach(fn, []*ssa.BasicBlock{fn.Blocks[0]}, del, nil)
	for _, b := range fn.Blocks {
		if !live[b.Index] {
			continue
		}
		for _, in := range b.Instrs {
			switch x := in.(type) {
			case *ssa.Store:
				fa, ok := x.Addr.(*ssa.FieldAddr)
				if ok && fa.X == par && fa.Field == idx {
					return true
				}
			case ssa.CallInstruction:
				if depth <= 0 {
					continue
				}
				g := x.Common().StaticCallee()
				if g == nil || !p.InModule(pkgOf(g)) {
					continue
				}
				for ai, a := range x.Common().Args {
					if a == par && p.storesField(g, ai, idx, depth-1, knownBools(fn, x.Common().Args, known), seen) {
						return true
					}
				}
			}
		}
	}
	return false
}

// knownBools: the arguments that are boolean constants, or parameters of the caller whose value is known.
func knownBools(caller *ssa.Function, args []ssa.Value, callerKnown map[int]bool) map[int]bool {
	out := map[int]bool{}
	for i, a := range args {
		if b, ok := boolConst(a); ok {
			out[i] = b
			continue
		}
		if pa, ok := a.(*ssa.Parameter); ok && caller != nil {
			for j, cp := range caller.Params {
				if cp == pa {
					if v, ok := callerKnown[j]; ok {
						out[i] = v
					}
				}
			}
		}
	}
	return out
}

// staleSliceHeaders: a slice header loaded from a field of an object, then a call on the same object
// that may assign that field (the callee appends to the table and stores the result), then an element
// store through the header loaded before the call. When the append reallocated, the store lands in
// the abandoned array and is lost.
func staleSliceHeaders(p *Prog) (out []gFinding) {
	for _, fn := range p.Funcs {
		if len(fn.Blocks) == 0 {
			continue
		}
		type load struct {
			in   *ssa.UnOp
			base ssa.Value
			st   *types.Struct
			idx  int
			name string
		}
		var loads []load
		var calls []ssa.CallInstruction
		for _, b := range fn.Blocks {
			for _, in := range b.Instrs {
				switch x := in.(type) {
				case *ssa.UnOp:
					if x.Op != token.MUL {
						continue
					}
					fa, ok := x.X.(*ssa.FieldAddr)
					if !ok {
						continue
					}
					if _, isSlice := x.Type().Underlying().(*types.Slice); !isSlice {
						continue
					}
					pt, ok := fa.X.Type().Underlying().(*types.Pointer)
					if !ok {
						continue
					}
					st, ok := pt.Elem().Underlying().(*types.Struct)
					if !ok {
						continue
					}
					loads = append(loads, load{x, fa.X, st, fa.Field, st.Field(fa.Field).Name()})
				case ssa.CallInstruction:
					if g := x.Common().StaticCallee(); g != nil && p.InModule(pkgOf(g)) {
						calls = append(calls, x)
					}
				}
			}
		}
		if len(loads) == 0 || len(calls) == 0 {
			continue
		}
		for _, l := range loads {
			for _, c := range calls {
				ai := -1
				for i, a := range c.Common().Args {
					if a == l.base {
						ai = i
					}
				}
				if ai < 0 {
					continue
				}
				g := c.Common().StaticCallee()
				if !p.storesField(g, ai, l.idx, 3, knownBools(nil, c.Common().Args, nil), map[*ssa.Function]bool{}) {
					continue
				}
				if !reachableAfter(fn, l.in, c, nil, nil) {
					continue
				}
				// the load and the call sit on opposite sides of a test of the same boolean parameter
				if contradictoryBools(fn, l.in.Block(), c.Block()) {
					continue
				}
				// element stores through the header loaded before the call
				key := fmt.Sprintf("%s: %s loaded before %s is not written through after it", p.FName(fn), l.name, p.FName(g))
				bad := ""
				for _, b := range fn.Blocks {
					for _, in := range b.Instrs {
						st, ok := in.(*ssa.Store)
						if !ok {
							continue
						}
						ia, ok := st.Addr.(*ssa.IndexAddr)
						if !ok {
							continue
						}
						if !throughPhis(ia.X, l.in) {
							continue
						}
						if staleAt(fn, l.in, c, st) {
							bad = p.Pos(st.Pos())
						}
					}
				}
				out = append(out, gFinding{Key: key, Pos: p.Pos(c.Pos()), OK: bad == "",
					Detail: "the element store at " + bad + " goes through the " + l.name + " header loaded before " + p.FName(g) + ", which may grow the table and assign the field: when the append reallocates, the store lands in the abandoned array and the chain written for the new stream is lost"})
			}
		}
	}
	sort.Slice(out, func(i, j int) bool { return out[i].Key < out[j].Key })
	return out
}

// requiredBools: the boolean parameters whose value is fixed wherever block b executes.
func requiredBools(fn *ssa.Function, b *ssa.BasicBlock) map[*ssa.Parameter]bool {
	out := map[*ssa.Parameter]bool{}
	for _, pa := range fn.Params {
		if !isBool(pa.Type()) {
			continue
		}
		for _, truth := range []bool{true, false} {
			g := Guard{Name: "p", Match: func(f Fact) bool { return f.V == ssa.Value(pa) && f.Kind == kindBool(truth) }}
			del := passEdges(fn, g)
			if len(del) == 0 {
				continue
			}
			if !reach(fn, []*ssa.BasicBlock{fn.Blocks[0]}, del, nil)[b.Index] {
				out[pa] = truth
			}
		}
	}
	return out
}

func contradictoryBools(fn *ssa.Function, a, b *ssa.BasicBlock) bool {
	ra, rb := requiredBools(fn, a), requiredBools(fn, b)
	for pa, v := range ra {
		if w, ok := rb[pa]; ok && w != v {
			return true
		}
	}
	return false
}

// throughPhis: v is the value `of` or a phi one of whose (transitive) edges is.
func throughPhis(v ssa.Value, of ssa.Value) bool {
	seen := map[ssa.Value]bool{}
	var walk func(v ssa.Value) bool
	walk = func(v ssa.Value) bool {
		if v == of {
			return true
		}
		if seen[v] {
			return false
		}
		seen[v] = true
		if ph, ok := v.(*ssa.Phi); ok {
			for _, e := range ph.Edges {
				if walk(e) {
					return true
				}
			}
		}
		return false
	}
	return walk(v)
}

// staleAt: can `use` execute after `call` without the load being executed again in between?
func staleAt(fn *ssa.Function, load ssa.Instruction, call ssa.Instruction, use ssa.Instruction) bool {
	// scan a block from instruction index `from`: the use is met before the load, or the end is reached
	scan := func(b *ssa.BasicBlock, from int) (hit, through bool) {
		for i := from; i < len(b.Instrs); i++ {
			if b.Instrs[i] == use {
				return true, false
			}
			if b.Instrs[i] == load {
				return false, false
			}
		}
		return false, true
	}
	hit, through := scan(call.Block(), instrIndex(call)+1)
	if hit {
		return true
	}
	if !through {
		return false
	}
	seen := map[*ssa.BasicBlock]bool{}
	work := append([]*ssa.BasicBlock{}, call.Block().Succs...)
	for len(work) > 0 {
		b := work[len(work)-1]
		work = work[:len(work)-1]
		if seen[b] {
			continue
		}
		seen[b] = true
		hit, through := scan(b, 0)
		if hit {
			return true
		}
		if through {
			work = append(work, b.Succs...)
		}
	}
	return false
}

// ------------------------------------------------------------------------------ R01l / R08b (Debian)

// debSkipsSignatureMembers: signdeb.Sign leaves every _gpg* member out of what the new signature
// lists: it tests the member name for the _gpg prefix.
func debSkipsSignatureMembers(p *Prog) (out []gFinding) {
	fn := p.Func("lib/signdeb.Sign")
	if fn == nil {
		return []gFinding{{Key: "signdeb.Sign leaves _gpg* members out of the digest", Pos: "-", OK: false, Detail: "function not found"}}
	}
	hasPrefix := false
	for _, ci := range p.callsIn(fn, "strings.HasPrefix") {
		if s, ok := constString(ci.Common().Args[1]); ok && s == "_gpg" {
			hasPrefix = true
		}
	}
	return []gFinding{{Key: "signdeb.Sign leaves _gpg* members out of the digest", Pos: p.Pos(fn.Pos()), OK: hasPrefix,
		Detail: "existing signature members of a Debian package are digested: the control block lists the signature another role made, dpkg-sig and debsig-verify reject the member list, and the signature of a signed package differs from that of the unsigned one"}}
}

// ------------------------------------------------------------------------------ R05p

// stringEq: the guard "v == <s>" holds (v compared with the constant s).
func stringEqGuard(name, s string) Guard {
	return Guard{Name: name, Match: func(f Fact) bool {
		if f.Kind != IsTrue {
			return false
		}
		bo, ok := f.V.(*ssa.BinOp)
		if !ok || bo.Op != token.EQL {
			return false
		}
		for _, v := range []ssa.Value{bo.X, bo.Y} {
			if c, ok := constString(v); ok && c == s {
				return true
			}
		}
		return false
	}}
}

// xmldsigNamespaces: the signature-method URI is built in the original xmldsig# namespace only for
// RSA keys (RFC 3275 defines rsa-sha1 and dsa-sha1 there; every ECDSA method, ecdsa-sha1 included,
// lives in xmldsig-more#, RFC 4051), and rsa-sha1 is never built in xmldsig-more#.
func xmldsigNamespaces(p *Prog, ev *c05Eval) (out []gFinding) {
	fn := p.Func("lib/xmldsig.hashAlgs")
	if fn == nil {
		return []gFinding{{Key: "xmldsig.hashAlgs", Pos: "-", OK: false, Detail: "function not found"}}
	}
	const nsDsig, nsMore = "http://www.w3.org/2000/09/xmldsig#", "http://www.w3.org/2001/04/xmldsig-more#"
	keyName := func(v ssa.Value) bool {
		ph, ok := v.(*ssa.Phi)
		if !ok {
			return false
		}
		for _, e := range ph.Edges {
			if s, ok := constString(e); ok && (s == "rsa" || s == "ecdsa") {
				return true
			}
		}
		return false
	}
	// edges deleted when the key is known to be RSA and the hash SHA-1, and when the key is known not to be RSA
	delRsaSha1, delNotRsa := map[edge]bool{}, map[edge]bool{}
	for _, bb := range fn.Blocks {
		ifi, ok := bb.Instrs[len(bb.Instrs)-1].(*ssa.If)
		if !ok {
			continue
		}
		for si, truth := range []bool{true, false} {
			for _, f := range factsOf(ifi.Cond, truth) {
				cmp, ok := f.V.(*ssa.BinOp)
				if !ok || cmp.Op != token.EQL {
					continue
				}
				for _, v := range []ssa.Value{cmp.X, cmp.Y} {
					if s, ok := constString(v); ok {
						if f.Kind == IsFalse && (s == "rsa" || s == "sha1") {
							delRsaSha1[edge{bb.Index, si}] = true
						}
						if f.Kind == IsTrue && s == "rsa" {
							delNotRsa[edge{bb.Index, si}] = true
						}
					}
				}
			}
		}
	}
	nd, nm := 0, 0
	for _, b := range fn.Blocks {
		for _, in := range b.Instrs {
			bo, ok := in.(*ssa.BinOp)
			if !ok || bo.Op != token.ADD {
				continue
			}
			ns, ok := constString(bo.X)
			if !ok || !keyName(bo.Y) {
				continue
			}
			switch ns {
			case nsDsig:
				nd++
				at := flowsToReturn(fn, bo, delNotRsa)
				out = append(out, gFinding{Key: fmt.Sprintf("hashAlgs returns a signature method in xmldsig# only for RSA keys #%d", nd), Pos: p.Pos(bo.Pos()), OK: at == token.NoPos,
					Detail: "a method URI built in the xmldsig# namespace is returned (" + p.Pos(at) + ") on a path that has not established the key is RSA: an ECDSA key with SHA-1 gets http://www.w3.org/2000/09/xmldsig#ecdsa-sha1, an identifier no specification defines (RFC 4051 puts ecdsa-sha1 in xmldsig-more#); the JDK and xmlsec reject the SignatureMethod"})
			case nsMore:
				nm++
				at := flowsToReturn(fn, bo, delRsaSha1)
				out = append(out, gFinding{Key: fmt.Sprintf("hashAlgs never returns rsa-sha1 in xmldsig-more# #%d", nm), Pos: p.Pos(bo.Pos()), OK: at == token.NoPos,
					Detail: "with an RSA key and SHA-1 the method URI built in xmldsig-more# is what is returned (" + p.Pos(at) + "): http://www.w3.org/2001/04/xmldsig-more#rsa-sha1 is not defined, RFC 3275 names the method http://www.w3.org/2000/09/xmldsig#rsa-sha1"})
			}
		}
	}
	if nd == 0 || nm == 0 {
		out = append(out, gFinding{Key: "hashAlgs builds the signature method from a namespace and the key-type name", Pos: p.Pos(fn.Pos()), OK: false,
			Detail: fmt.Sprintf("expected concatenations of both namespaces with the key-type name (found %d, %d)", nd, nm)})
	}
	return out
}

// flowsToReturn: can the value v (or a string built by appending to it) be what a return of fn hands
// back, on a path from the entry that crosses none of the deleted edges? Returns the position of such
// a return, or NoPos. A value that is computed and then replaced on every remaining path does not flow.
func flowsToReturn(fn *ssa.Function, v ssa.Value, del map[edge]bool) token.Pos {
	live := reach(fn, []*ssa.BasicBlock{fn.Blocks[0]}, del, nil)
	edgeLive := func(from, to *ssa.BasicBlock) bool {
		if !live[from.Index] {
			return false
		}
		for si, s := range from.Succs {
			if s == to && !del[edge{from.Index, si}] {
				return true
			}
		}
		return false
	}
	seen := map[ssa.Value]bool{}
	var walk func(v ssa.Value) token.Pos
	walk = func(v ssa.Value) token.Pos {
		if seen[v] {
			return token.NoPos
		}
		seen[v] = true
		refs := v.Referrers()
		if refs == nil {
			return token.NoPos
		}
		for _, r := range *refs {
			switch x := r.(type) {
			case *ssa.Return:
				if live[x.Block().Index] {
					return x.Pos()
				}
			case *ssa.BinOp:
				if x.Op == token.ADD && live[x.Block().Index] {
					if at := walk(x); at != token.NoPos {
						return at
					}
				}
			case *ssa.Phi:
				for i, e := range x.Edges {
					if e == v && edgeLive(x.Block().Preds[i], x.Block()) {
						if at := walk(x); at != token.NoPos {
							return at
						}
					}
				}
			}
		}
		return token.NoPos
	}
	if !live[v.(ssa.Instruction).Block().Index] {
		return token.NoPos
	}
	return walk(v)
}

// ------------------------------------------------------------------------------ R05q

// msiSortBound: the MSI stream order compares the first min(lenA, lenB) bytes of the two names, the
// lengths as recorded (terminator included): in 16-bit units that is min(NameLength)/2, bounded by
// the array, with nothing subtracted.
func msiSortBound(p *Prog) (out []gFinding) {
	outer := p.Func("lib/authenticode.sortMsiFiles")
	if outer == nil {
		return []gFinding{{Key: "authenticode.sortMsiFiles", Pos: "-", OK: false, Detail: "function not found"}}
	}
	n := 0
	for _, fn := range withClosures(outer) {
		for _, b := range fn.Blocks {
			ifi, ok := b.Instrs[len(b.Instrs)-1].(*ssa.If)
			if !ok {
				continue
			}
			cmp, ok := ifi.Cond.(*ssa.BinOp)
			if !ok || (cmp.Op != token.LSS && cmp.Op != token.LEQ && cmp.Op != token.GTR && cmp.Op != token.GEQ) {
				continue
			}
			// a loop test: one side is a loop-carried counter of this block
			var bound ssa.Value
			for _, pair := range [][2]ssa.Value{{cmp.X, cmp.Y}, {cmp.Y, cmp.X}} {
				if ph, ok := stripIntConv(pair[0]).(*ssa.Phi); ok && ph.Block() == b {
					bound = pair[1]
				}
			}
			if bound == nil {
				continue
			}
			fromLen := 0
			dependsOn(bound, func(x ssa.Value) bool {
				if _, f, _ := p.fieldLoad(x); f == "NameLength" {
					fromLen++
				}
				return false
			})
			if fromLen == 0 {
				continue
			}
			n++
			halved, bad := 0, ""
			dependsOn(bound, func(x ssa.Value) bool {
				bo, ok := x.(*ssa.BinOp)
				if !ok {
					return false
				}
				k, isC := constInt(bo.Y)
				switch bo.Op {
				case token.QUO:
					if isC && k == 2 {
						halved++
					} else {
						bad = "division other than by 2"
					}
				case token.SHR:
					if isC && k == 1 {
						halved++
					} else {
						bad = "shift other than by 1"
					}
				case token.SUB, token.ADD, token.MUL, token.REM, token.AND, token.SHL:
					bad = "the count is adjusted (" + bo.Op.String() + ")"
				}
				return false
			})
			if cmp.Op == token.LEQ || cmp.Op == token.GEQ {
				bad = "the loop test includes the bound"
			}
			ok2 := bad == "" && halved >= 1 && fromLen >= 2
			if bad == "" && halved == 0 {
				bad = "the byte count is not halved"
			}
			if bad == "" && fromLen < 2 {
				bad = "only one of the two lengths takes part"
			}
			out = append(out, gFinding{Key: fmt.Sprintf("sortMsiFiles compares min(NameLength)/2 code units #%d", n), Pos: p.Pos(cmp.Pos()), OK: ok2,
				Detail: "the number of 16-bit units compared is not min(lenA, lenB)/2 of the recorded lengths (" + bad + "): the reference order (Windows, osslsigncode, msitools) is memcmp over min(lenA, lenB) bytes with the terminator counted, so a name that is a prefix of another sorts first because its NUL is reached; with another count the pair falls to the length tie-break, the longer name is hashed first and the imprint differs from the one a reference verifier recomputes"})
		}
	}
	if n == 0 {
		out = append(out, gFinding{Key: "sortMsiFiles compares min(NameLength)/2 code units", Pos: p.Pos(outer.Pos()), OK: false, Detail: "no loop bounded by the recorded name lengths found"})
	}
	return out
}

// ------------------------------------------------------------------------------ R05r

type linForm struct {
	base ssa.Value
	off  int64
}

// linForms evaluates v as base+offset for every consistent choice of incoming edge at the blocks
// whose phis v hangs on (phis of one block take the same edge).
func linForms(v ssa.Value) []linForm {
	// the phi blocks in the additive closure of v
	var blocks []*ssa.BasicBlock
	seenB := map[*ssa.BasicBlock]bool{}
	seenV := map[ssa.Value]bool{}
	var collect func(v ssa.Value)
	collect = func(v ssa.Value) {
		if seenV[v] {
			return
		}
		seenV[v] = true
		switch x := v.(type) {
		case *ssa.Phi:
			if !seenB[x.Block()] {
				seenB[x.Block()] = true
				blocks = append(blocks, x.Block())
			}
			for _, e := range x.Edges {
				collect(e)
			}
		case *ssa.BinOp:
			if x.Op == token.ADD || x.Op == token.SUB {
				collect(x.X)
				collect(x.Y)
			}
		}
	}
	collect(v)
	if len(blocks) > 6 {
		return []linForm{{v, 0}}
	}
	var out []linForm
	env := map[*ssa.BasicBlock]int{}
	var eval func(v ssa.Value, depth int) linForm
	eval = func(v ssa.Value, depth int) linForm {
		if depth > 20 {
			return linForm{v, 0}
		}
		if k, ok := constInt(v); ok {
			return linForm{nil, k}
		}
		switch x := v.(type) {
		case *ssa.Phi:
			return eval(x.Edges[env[x.Block()]], depth+1)
		case *ssa.BinOp:
			if x.Op == token.ADD || x.Op == token.SUB {
				a, b := eval(x.X, depth+1), eval(x.Y, depth+1)
				if x.Op == token.SUB {
					if b.base != nil {
						return linForm{v, 0}
					}
					return linForm{a.base, a.off - b.off}
				}
				if a.base != nil && b.base != nil {
					return linForm{v, 0}
				}
				if a.base == nil {
					a.base = b.base
				}
				return linForm{a.base, a.off + b.off}
			}
		}
		return linForm{v, 0}
	}
	var enum func(i int)
	enum = func(i int) {
		if i == len(blocks) {
			out = append(out, eval(v, 0))
			return
		}
		for k := range blocks[i].Preds {
			env[blocks[i]] = k
			enum(i + 1)
		}
	}
	enum(0)
	return out
}

// jarSectionsKeepBlankLine: where a manifest section is found by searching for a blank-line
// delimiter, the section slice runs to the end of that delimiter: the JAR specification has the
// per-section digest in the signature file cover the section's trailing blank line. The rule is
// conditional on the idiom: a splitter of another shape is not judged.
func jarSectionsKeepBlankLine(p *Prog) (out []gFinding, idiom int) {
	pkg := p.SSAPkg("lib/signjar")
	if pkg == nil {
		return []gFinding{{Key: "lib/signjar", Pos: "-", OK: false, Detail: "package not found"}}, 0
	}
	for _, fn := range p.Funcs {
		if fn.Pkg != pkg || len(fn.Blocks) == 0 {
			continue
		}
		delim := map[ssa.Value]string{} // bytes.Index result -> delimiter
		buf := map[ssa.Value]ssa.Value{}
		for _, ci := range p.callsIn(fn, "bytes.Index", "strings.Index") {
			arg := ci.Common().Args[1]
			if cv, ok := arg.(*ssa.Convert); ok {
				arg = cv.X
			}
			s, ok := constString(arg)
			if !ok || strings.Count(s, "\n") < 2 || strings.Trim(s, "\r\n") != "" {
				continue
			}
			delim[ci.Value()] = s
			buf[ci.Value()] = ci.Common().Args[0]
		}
		if len(delim) == 0 {
			continue
		}
		for _, b := range fn.Blocks {
			for _, in := range b.Instrs {
				sl, ok := in.(*ssa.Slice)
				if !ok || sl.High == nil || sl.Low != nil {
					continue
				}
				for _, lf := range linForms(sl.High) {
					d, ok := delim[lf.base]
					if !ok || buf[lf.base] != sl.X {
						continue
					}
					idiom++
					out = append(out, gFinding{Key: fmt.Sprintf("%s: a section found by its %q delimiter runs to the end of the delimiter", p.FName(fn), d), Pos: p.Pos(sl.Pos()), OK: lf.off == int64(len(d)),
						Detail: fmt.Sprintf("the section ends %d bytes after the start of the %d-byte blank-line delimiter: the per-section digests written to the signature file then leave out (part of) the blank line that the JAR specification makes part of the section, and jarsigner reports the digest of every entry as invalid against the manifest", lf.off, len(d))})
				}
			}
		}
	}
	return out, idiom
}

// ------------------------------------------------------------------------------ R08j

// msiNamesPassControlChars: the names the MSI tar digest skips ("\x05DigitalSignature", ...) are
// compared with tar member names produced by msiDecodeName, so msiDecodeName has to pass their code
// units through unchanged: every threshold it compares a code unit with lies above every code unit of
// the skipped names, and the code unit itself is what the fall-through branch appends.
func msiNamesPassControlChars(p *Prog, ev *c05Eval) (out []gFinding) {
	if ev == nil {
		ev = newC05Eval(p)
	}
	dec := p.Func("lib/authenticode.msiDecodeName")
	dig := p.Func("lib/authenticode.DigestMsiTar")
	if dec == nil || dig == nil {
		return []gFinding{{Key: "msiDecodeName / DigestMsiTar", Pos: "-", OK: false, Detail: "function not found"}}
	}
	// names DigestMsiTar compares member names with
	var names []string
	for _, b := range dig.Blocks {
		for _, in := range b.Instrs {
			bo, ok := in.(*ssa.BinOp)
			if !ok || (bo.Op != token.EQL && bo.Op != token.NEQ) {
				continue
			}
			for _, v := range []ssa.Value{bo.X, bo.Y} {
				s, ok := constString(v)
				if !ok {
					s, ok = ev.globalString(v)
				}
				if ok && strings.Contains(s, "DigitalSignature") {
					names = append(names, s)
				}
			}
		}
	}
	if len(names) == 0 {
		return []gFinding{{Key: "DigestMsiTar skips the signature streams by name", Pos: p.Pos(dig.Pos()), OK: false, Detail: "no comparison of a member name with a *DigitalSignature* constant found"}}
	}
	maxUnit := rune(0)
	for _, s := range names {
		for _, r := range s {
			if r > maxUnit {
				maxUnit = r
			}
		}
	}
	minUnit := rune(0x7fffffff)
	for _, s := range names {
		for _, r := range s {
			if r < minUnit {
				minUnit = r
			}
		}
	}
	// the range value and the constants it is compared with
	var unit ssa.Value
	for _, b := range dec.Blocks {
		for _, in := range b.Instrs {
			if ex, ok := in.(*ssa.Extract); ok && ex.Index == 2 {
				if _, isNext := ex.Tuple.(*ssa.Next); isNext {
					unit = ex
				}
			}
		}
	}
	if unit == nil {
		return []gFinding{{Key: "msiDecodeName ranges over the code units of the name", Pos: p.Pos(dec.Pos()), OK: false, Detail: "no range over a string found"}}
	}
	bad := ""
	nCmp := 0
	for _, b := range dec.Blocks {
		for _, in := range b.Instrs {
			bo, ok := in.(*ssa.BinOp)
			if !ok {
				continue
			}
			switch bo.Op {
			case token.LSS, token.LEQ, token.GTR, token.GEQ, token.EQL, token.NEQ:
			default:
				continue
			}
			var k int64
			var isC bool
			if bo.X == unit {
				k, isC = constInt(bo.Y)
			} else if bo.Y == unit {
				k, isC = constInt(bo.X)
			} else {
				continue
			}
			if !isC {
				bad = "compared with a non-constant at " + p.Pos(bo.Pos())
				continue
			}
			nCmp++
			// the threshold separates the units of the skipped names from each other or sits on one of them
			if k <= int64(maxUnit) {
				bad = fmt.Sprintf("threshold %#x at %s is not above the code units of the skipped names (%#x..%#x)", k, p.Pos(bo.Pos()), minUnit, maxUnit)
			}
		}
	}
	identity := false
	for _, b := range dec.Blocks {
		for _, in := range b.Instrs {
			if cv, ok := in.(*ssa.Convert); ok && cv.X == unit {
				if bt, ok := cv.Type().Underlying().(*types.Basic); ok && bt.Kind() == types.String {
					identity = true
				}
			}
		}
	}
	if bad == "" && !identity {
		bad = "no branch appends the code unit itself"
	}
	if bad == "" && nCmp == 0 {
		bad = "no threshold comparisons found"
	}
	out = append(out, gFinding{Key: "msiDecodeName passes the code units of the skipped stream names through", Pos: p.Pos(dec.Pos()), OK: bad == "",
		Detail: "msiDecodeName does not treat the code units of \"\\x05DigitalSignature\" like every other unit below the packed range (" + bad + "): the tar member of an existing signature stream is then not named what DigestMsiTar skips, the old signature is digested as payload, and a re-signed MSI carries an imprint no verifier reproduces"})
	return out
}

// ------------------------------------------------------------------------------ R09l

// apkDigestedDirectoryIsWrittenDirectory: the APK signer patches in an end-of-directory record
// produced by Directory.WriteDirectory, so the record it digests has to come from the same
// serialiser: the flag it passes to merkleHasher.Finish selects the WriteDirectory side.
func apkDigestedDirectoryIsWrittenDirectory(p *Prog) (out []gFinding) {
	fin := p.Func("signers/apk.(*merkleHasher).Finish")
	dig := p.Func("signers/apk.digestApkStream")
	sign := p.Func("signers/apk.(*Digest).Sign")
	if fin == nil || dig == nil || sign == nil {
		return []gFinding{{Key: "apk Finish / digestApkStream / Sign", Pos: "-", OK: false, Detail: "function not found"}}
	}
	const wd = "(*lib/zipslicer.Directory).WriteDirectory"
	if len(p.callsIn(sign, wd)) == 0 {
		return []gFinding{{Key: "apk (*Digest).Sign writes the end of directory with WriteDirectory", Pos: p.Pos(sign.Pos()), OK: false, Detail: "no call of Directory.WriteDirectory found in Sign: the rule's premise is gone, re-derive it"}}
	}
	// which value of which bool parameter of Finish leads to WriteDirectory? (directly, or in a helper of
	// the package that is handed the parameter)
	var selects func(fn *ssa.Function, depth int) (int, bool, bool)
	selects = func(fn *ssa.Function, depth int) (int, bool, bool) {
		for i, pa := range fn.Params {
			if !isBool(pa.Type()) {
				continue
			}
			for _, truth := range []bool{true, false} {
				g := Guard{Name: "flag", Match: func(f Fact) bool { return f.V == ssa.Value(pa) && f.Kind == kindBool(truth) }}
				all := true
				calls := p.callsIn(fn, wd)
				for _, ci := range calls {
					if missing, _ := p.unguardedFromEntry(fn, ci, g); len(missing) > 0 {
						all = false
					}
				}
				if all && len(calls) > 0 {
					return i, truth, true
				}
			}
		}
		if depth >= 2 {
			return -1, false, false
		}
		for _, b := range fn.Blocks {
			for _, in := range b.Instrs {
				ci, ok := in.(ssa.CallInstruction)
				if !ok {
					continue
				}
				g := ci.Common().StaticCallee()
				if g == nil || pkgOf(g) != pkgOf(fn) || len(g.Blocks) == 0 {
					continue
				}
				gi, gw, gf := selects(g, depth+1)
				if !gf {
					continue
				}
				// the helper's flag is a parameter of fn, handed through unchanged
				if pa, ok := ci.Common().Args[gi].(*ssa.Parameter); ok {
					for i, fp := range fn.Params {
						if fp == pa {
							return i, gw, true
						}
					}
				}
			}
		}
		return -1, false, false
	}
	pi, want, found := selects(fin, 0)
	if !found {
		return []gFinding{{Key: "merkleHasher.Finish serialises the directory with WriteDirectory on one side of a flag", Pos: p.Pos(fin.Pos()), OK: false, Detail: "no bool parameter of Finish decides whether WriteDirectory is called"}}
	}
	n := 0
	for _, ci := range p.callsIn(dig, "(*signers/apk.merkleHasher).Finish") {
		n++
		arg := ci.Common().Args[pi]
		b, isC := boolConst(arg)
		out = append(out, gFinding{Key: fmt.Sprintf("digestApkStream digests the end-of-directory record WriteDirectory produces #%d", n), Pos: p.Pos(ci.Pos()), OK: isC && b == want,
			Detail: "the signer digests the directory and end record as uploaded while Sign patches in the record WriteDirectory generates: the two differ whenever WriteDirectory picks another layout than the input had (a member that declares version-needed 45 makes it emit ZIP64 end records), the patched file then carries a record other than the one the signed digest covers and every verifier reports a digest mismatch"})
	}
	if n == 0 {
		out = append(out, gFinding{Key: "digestApkStream digests the end-of-directory record WriteDirectory produces", Pos: p.Pos(dig.Pos()), OK: false, Detail: "no call of merkleHasher.Finish found"})
	}
	return out
}

var _ = constant.MakeBool

// globalString: the string a package-level variable of the module is initialised with (v is a load of it).
func (ev *c05Eval) globalString(v ssa.Value) (string, bool) {
	u, ok := stripConv(v).(*ssa.UnOp)
	if !ok || u.Op != token.MUL {
		return "", false
	}
	g, ok := u.X.(*ssa.Global)
	if !ok {
		return "", false
	}
	obj, ok := g.Object().(*types.Var)
	if !ok {
		return "", false
	}
	def := ev.vars[obj]
	if def == nil {
		return "", false
	}
	a := ev.eval(def.pk, def.init, 0)
	if a == nil || a.kind != "string" {
		return "", false
	}
	return a.s, true
}
