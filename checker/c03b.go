package main

// C03, rules added after the second seeding round: R03f (a provisional central-directory
// offset is restored before the directory is handed on), R03g (a length written as one or two
// octets is bounded as a byte count), R03h (the span of an ar member removed by the Debian
// signer includes the padding byte).

import (
	"fmt"
	"go/token"
	"go/types"
	"strings"

	"golang.org/x/tools/go/ssa"
)

func c03Round2(c *Ctx) {
	p := c.P
	c.Rule("R03f", "a function that moves Directory.DirLoc provisionally and hands the directory on puts the original offset back on every success path", 1)
	c.Rule("R03g", "a length narrowed to one octet for a length field is bounded, as a byte count, on every path", 1)
	c.Rule("R03h", "the span of an existing _gpg member removed from a .deb is its header plus its size rounded up to even", 1)

	fs := dirLocRestored(p)
	if len(fs) == 0 {
		c.Undecided("R03f", "provisional DirLoc", "-", "no function stores a provisional Directory.DirLoc and returns the directory (digestApkStream did)")
	}
	for _, f := range fs {
		c.Check(f.OK, "R03f", f.Key, f.Pos, "restored from a load taken before the provisional store", f.Detail, f.Path...)
	}
	for _, f := range lengthOctets(p) {
		c.Check(f.OK, "R03g", f.Key, f.Pos, "bounded", f.Detail)
	}
	c.runControl("R03g length octet control (ctl/lenoct.Put)", "lenoct.Put", lengthOctets)
	c.Rule("R03m", "on the signing paths no store goes into a map that may be a package-level table", 10)
	{
		var roots []*ssa.Function
		for _, field := range []string{"Sign", "Transform", "Fixup"} {
			for fn := range p.registeredSignerFuncs(field) {
				roots = append(roots, fn)
			}
		}
		if tr := p.ifaceNamed("signers", "Transformer"); tr != nil {
			for _, t := range p.implementersOf(tr) {
				for _, m := range []string{"Apply", "GetReader"} {
					if f := p.methodOf(t, m); f != nil {
						roots = append(roots, f)
					}
				}
			}
		}
		within := p.moduleReachOpt(roots, false)
		for _, f := range sharedTablesNotWritten(p, within) {
			c.Check(f.OK, "R03m", f.Key, f.Pos, "", f.Detail)
		}
	}
	c.runControl("R03m shared table control (ctl/nilmap.Register)", "nilmap.Merge", func(cp *Prog) []gFinding { return sharedTablesNotWritten(cp, nil) })
	c.Rule("R03l", "a stream is freed in the allocation table it was stored in: one mini-stream cutoff predicate at every site of lib/comdoc (shared with C18 R18e)", 5)
	c18RuleCutoff = "R03l"
	c18Cutoff(c, p.pkgFuncs("lib/comdoc"))
	c18RuleCutoff = "R18e"
	c.Rule("R03j", "the Debian signer's archive reader reads from the byte counter itself, so counted positions are archive positions", 1)
	for _, f := range counterDirectlyUnderReader(p) {
		c.Check(f.OK, "R03j", f.Key, f.Pos, f.Detail, f.Detail)
	}
	c.Rule("R03k", "the name and extra field kept for a ZIP local header are read from the local header itself (shared with C17 R17r)", 2)
	for _, f := range localHeaderFromItself(p) {
		c.Check(f.OK, "R03k", f.Key, f.Pos, "", f.Detail)
	}
	c.Rule("R03i", "re-signing a xar shifts the recorded heap offset of every data entry", 1)
	for _, f := range xarOffsetsRelocated(p) {
		c.Check(f.OK, "R03i", f.Key, f.Pos, "every iteration shifts its entry", f.Detail)
	}
	if fn := p.Func("lib/signdeb.Sign"); fn == nil {
		c.Undecided("R03h", "signdeb.Sign", "-", "function not found")
	} else {
		c.Analysed(p.FName(fn))
		for _, f := range arSpanPadded(p, fn) {
			c.Check(f.OK, "R03h", f.Key, f.Pos, f.Detail, f.Detail)
		}
	}
}

// ------------------------------------------------------------------------------ R03f

// cellOf: a variable that is captured by a closure lives in a cell; every load of the cell stands
// for the variable.
func cellOf(v ssa.Value) ssa.Value {
	if u, ok := v.(*ssa.UnOp); ok && u.Op == token.MUL {
		if a, ok := u.X.(*ssa.Alloc); ok {
			return a
		}
	}
	return v
}

func isDirLocAddr(p *Prog, a ssa.Value) (ssa.Value, bool) {
	fa, ok := a.(*ssa.FieldAddr)
	if !ok {
		return nil, false
	}
	tn, f, _ := p.fieldAddr(fa)
	if strings.HasSuffix(tn, "lib/zipslicer.Directory") && f == "DirLoc" {
		return cellOf(fa.X), true
	}
	return nil, false
}

func dirLocRestored(p *Prog) (out []gFinding) {
	for _, fn := range p.Funcs {
		var stores []*ssa.Store
		loads := map[ssa.Value]ssa.Value{} // load -> object
		for _, b := range fn.Blocks {
			for _, in := range b.Instrs {
				switch x := in.(type) {
				case *ssa.Store:
					if _, ok := isDirLocAddr(p, x.Addr); ok {
						stores = append(stores, x)
					}
				case *ssa.UnOp:
					if x.Op == token.MUL {
						if obj, ok := isDirLocAddr(p, x.X); ok {
							loads[x] = obj
						}
					}
				}
			}
		}
		if len(stores) == 0 {
			continue
		}
		succ := p.successReturns(fn)
		n := 0
		for _, st := range stores {
			obj, _ := isDirLocAddr(p, st.Addr)
			if a, fresh := obj.(*ssa.Alloc); fresh {
				if _, isPtr := derefType(a.Type()).Underlying().(*types.Pointer); !isPtr {
					continue // initialising a directory this function creates
				}
			}
			// a store of a value that was itself read from obj.DirLoc puts an earlier offset back
			if l, isLoad := stripConv(st.Val).(*ssa.UnOp); isLoad && loads[l] == obj {
				continue
			}
			// does the directory leave the function through a result?
			escapes := false
			for _, r := range succ {
				for _, res := range r.Results {
					if dependsOn(res, func(x ssa.Value) bool { return cellOf(x) == obj }) {
						escapes = true
					}
				}
			}
			if !escapes {
				continue
			}
			n++
			key := fmt.Sprintf("%s provisional DirLoc#%d", p.FName(fn), n)
			// restored by a deferred function: runs on every exit
			deferred := false
			for _, b := range fn.Blocks {
				for _, in := range b.Instrs {
					df, ok := in.(*ssa.Defer)
					if !ok {
						continue
					}
					if mc, ok := df.Call.Value.(*ssa.MakeClosure); ok {
						for _, ab := range mc.Fn.(*ssa.Function).Blocks {
							for _, ain := range ab.Instrs {
								if ast, ok := ain.(*ssa.Store); ok {
									if _, isDL := isDirLocAddr(p, ast.Addr); isDL {
										deferred = true
									}
								}
							}
						}
					}
				}
			}
			if deferred {
				out = append(out, gFinding{Key: key, Pos: p.Pos(st.Pos()), OK: true, Detail: "restored by a deferred function"})
				continue
			}
			// restoring stores: value is a load of obj.DirLoc that cannot see the provisional value
			del := map[edge]bool{}
			restoring := 0
			sameBlockAfter := false
			for _, r := range stores {
				l, isLoad := stripConv(r.Val).(*ssa.UnOp)
				if !isLoad || loads[l] != obj || r == st {
					continue
				}
				if reachableAfter(fn, st, l, nil, nil) {
					continue // the load may see the provisional value
				}
				restoring++
				if r.Block() == st.Block() && instrIndex(r) > instrIndex(st) {
					sameBlockAfter = true
				}
				for si := range r.Block().Succs {
					del[edge{r.Block().Index, si}] = true
				}
			}
			bad := ""
			var path []string
			if !sameBlockAfter {
				pred := map[int]int{}
				seen := reachAfter(fn, st, del, pred)
				for _, r := range succ {
					rb := r.Block()
					restoredHere := false
					for _, rs := range stores {
						if rs.Block() == rb && rs != st {
							if l, isLoad := stripConv(rs.Val).(*ssa.UnOp); isLoad && loads[l] == obj && !reachableAfter(fn, st, l, nil, nil) {
								restoredHere = true
							}
						}
					}
					if restoredHere {
						continue
					}
					if seen[rb.Index] || rb == st.Block() {
						bad = p.Pos(r.Pos())
						path = p.witness(fn, pred, rb.Index)
					}
				}
			}
			out = append(out, gFinding{Key: key, Pos: p.Pos(st.Pos()), OK: bad == "", Path: path,
				Detail: fmt.Sprintf("DirLoc of the directory that is handed on is overwritten with a provisional offset and the success return at %s is reached without the original offset being stored back (%d restoring stores found): whoever receives the directory takes the provisional value for the place of the existing central directory, so re-signing patches the wrong range and leaves the old block in the file", bad, restoring)})
		}
	}
	return out
}

// ------------------------------------------------------------------------------ R03g

// lengthOctets: uint8(len(x)) / uint16(len(x)) written out as a length field. The count must be
// bounded by a comparison of len(x) itself (bytes, not runes) or by a constant re-slice.
func lengthOctets(p *Prog) (out []gFinding) {
	for _, fn := range p.Funcs {
		n := 0
		for _, b := range fn.Blocks {
			for _, in := range b.Instrs {
				cv, ok := in.(*ssa.Convert)
				if !ok {
					continue
				}
				w := intWidth(cv.Type())
				// one-octet length fields only: a 255-byte limit is within reach of ordinary input (file
				// names); the 16-bit fields of the ZIP records carry names that were read from such a
				// field or are built from configuration constants
				if w != 8 {
					continue
				}
				call, ok := stripConv(cv.X).(*ssa.Call)
				if !ok {
					continue
				}
				bi, ok := call.Call.Value.(*ssa.Builtin)
				if !ok || bi.Name() != "len" {
					continue
				}
				x := call.Call.Args[0]
				if _, isArr := x.Type().Underlying().(*types.Array); isArr {
					continue
				}
				max := int64(255)
				if w == 16 {
					max = 65535
				}
				n++
				key := fmt.Sprintf("%s uint%d(len)#%d", p.FName(fn), w, n)
				ok2 := lenBounded(fn, x, cv.Block(), max, 0)
				out = append(out, gFinding{Key: key, Pos: p.Pos(cv.Pos()), OK: ok2,
					Detail: fmt.Sprintf("len(%s) is narrowed to %d bits for a length field but no comparison of that byte length with a constant up to %d (and no re-slice to such a constant) covers every path: a longer value wraps the length and the reader takes the rest of it for data", describeVal(p, x), w, max)})
			}
		}
	}
	return out
}

func lenBounded(fn *ssa.Function, x ssa.Value, at *ssa.BasicBlock, max int64, depth int) bool {
	if depth > 6 {
		return false
	}
	switch y := x.(type) {
	case *ssa.Const:
		return true
	case *ssa.Slice:
		if k, ok := constInt(y.High); ok && k <= max {
			return true
		}
	case *ssa.Phi:
		all := true
		for i, e := range y.Edges {
			if lenBounded(fn, e, y.Block().Preds[i], max, depth+1) {
				continue
			}
			all = false
		}
		if all {
			return true
		}
	}
	// a comparison of len(x) with a constant up to max+1 in a block that dominates `at` (or is it)
	for _, b := range fn.Blocks {
		ifi, ok := b.Instrs[len(b.Instrs)-1].(*ssa.If)
		if !ok || !(b == at || b.Dominates(at)) {
			continue
		}
		bo, ok := ifi.Cond.(*ssa.BinOp)
		if !ok {
			continue
		}
		switch bo.Op {
		case token.LSS, token.LEQ, token.GTR, token.GEQ:
		default:
			continue
		}
		isLenOf := func(v ssa.Value) bool {
			call, ok := stripConv(v).(*ssa.Call)
			if !ok {
				return false
			}
			bi, ok := call.Call.Value.(*ssa.Builtin)
			return ok && bi.Name() == "len" && call.Call.Args[0] == x
		}
		var other ssa.Value
		if isLenOf(bo.X) {
			other = bo.Y
		} else if isLenOf(bo.Y) {
			other = bo.X
		}
		if other == nil {
			continue
		}
		if k, ok := constInt(other); ok && k <= max+1 {
			return true
		}
	}
	return false
}

// ------------------------------------------------------------------------------ R03h

// arSpanPadded: the length handed to the patch set for the removed member, when it is computed
// from ar.Header.Size, goes through a rounding to even.
func arSpanPadded(p *Prog, fn *ssa.Function) (out []gFinding) {
	isSize := func(v ssa.Value) bool {
		tn, f, _ := p.fieldLoad(v)
		return strings.HasSuffix(tn, "ar.Header") && f == "Size"
	}
	type res struct{ size, rounded bool }
	var walk func(v ssa.Value, seen map[ssa.Value]bool, d int) res
	walk = func(v ssa.Value, seen map[ssa.Value]bool, d int) res {
		var r res
		if v == nil || seen[v] || d > 40 {
			return r
		}
		seen[v] = true
		if isSize(v) {
			r.size = true
			return r
		}
		merge := func(o res) {
			r.size = r.size || o.size
			r.rounded = r.rounded || o.rounded
		}
		switch x := v.(type) {
		case *ssa.BinOp:
			a, b := walk(x.X, seen, d+1), walk(x.Y, seen, d+1)
			merge(a)
			merge(b)
			if r.size {
				switch x.Op {
				case token.MUL:
					// (s+1)/2*2
					for _, pair := range [][2]ssa.Value{{x.X, x.Y}, {x.Y, x.X}} {
						if q, ok := stripConv(pair[0]).(*ssa.BinOp); ok && isIntConst(pair[1], 2) && ((q.Op == token.QUO && isIntConst(q.Y, 2)) || (q.Op == token.SHR && isIntConst(q.Y, 1))) {
							r.rounded = true
						}
					}
				case token.SHL:
					if q, ok := stripConv(x.X).(*ssa.BinOp); ok && isIntConst(x.Y, 1) && ((q.Op == token.QUO && isIntConst(q.Y, 2)) || (q.Op == token.SHR && isIntConst(q.Y, 1))) {
						r.rounded = true
					}
				case token.AND_NOT:
					if isIntConst(x.Y, 1) {
						r.rounded = true
					}
				case token.ADD:
					// s + s%2, s + s&1
					for _, side := range []ssa.Value{x.X, x.Y} {
						if q, ok := stripConv(side).(*ssa.BinOp); ok && ((q.Op == token.REM && isIntConst(q.Y, 2)) || (q.Op == token.AND && isIntConst(q.Y, 1))) {
							r.rounded = true
						}
					}
				}
			}
		case *ssa.Convert:
			merge(walk(x.X, seen, d+1))
		case *ssa.ChangeType:
			merge(walk(x.X, seen, d+1))
		case *ssa.Phi:
			for _, e := range x.Edges {
				merge(walk(e, seen, d+1))
			}
		case *ssa.UnOp:
			if a, ok := x.X.(*ssa.Alloc); ok && x.Op == token.MUL {
				for _, ref := range *a.Referrers() {
					if st, ok := ref.(*ssa.Store); ok && st.Addr == a {
						merge(walk(st.Val, seen, d+1))
					}
				}
			} else {
				merge(walk(x.X, seen, d+1))
			}
		case *ssa.Call:
			for _, a := range x.Call.Args {
				merge(walk(a, seen, d+1))
			}
			if sc := x.Common().StaticCallee(); sc != nil && len(sc.Blocks) > 0 && p.InModule(pkgOf(sc)) {
				for _, ret := range returnsOf(sc) {
					for _, rv := range ret.Results {
						o := walk(rv, seen, d+1)
						merge(o)
					}
				}
				// the callee reads Size through its parameter
				for _, b := range sc.Blocks {
					for _, in := range b.Instrs {
						if val, ok := in.(ssa.Value); ok && isSize(val) {
							r.size = true
						}
					}
				}
			}
		case *ssa.Extract:
			merge(walk(x.Tuple, seen, d+1))
		}
		return r
	}
	adds := p.callsIn(fn, "(*lib/binpatch.PatchSet).Add")
	if len(adds) == 0 {
		return []gFinding{{Key: p.FName(fn) + " hands the removed span to the patch set", Pos: p.Pos(fn.Pos()), OK: false, Detail: "no call of PatchSet.Add found"}}
	}
	for i, ci := range adds {
		args := ci.Common().Args
		if len(args) < 3 {
			continue
		}
		r := walk(args[2], map[ssa.Value]bool{}, 0)
		key := fmt.Sprintf("%s removed span#%d", p.FName(fn), i+1)
		switch {
		case !r.size:
			// measured, not computed: a length taken from stream positions is even only when the code makes it so
			evened := dependsOn(args[2], func(x ssa.Value) bool {
				bo, ok := x.(*ssa.BinOp)
				if !ok {
					return false
				}
				switch bo.Op {
				case token.REM:
					return isIntConst(bo.Y, 2)
				case token.AND:
					return isIntConst(bo.Y, 1) || isIntConst(bo.X, 1)
				case token.AND_NOT:
					return isIntConst(bo.Y, 1)
				case token.QUO:
					return isIntConst(bo.Y, 2)
				case token.SHR:
					return isIntConst(bo.Y, 1)
				}
				return false
			})
			out = append(out, gFinding{Key: key, Pos: p.Pos(ci.Pos()), OK: evened, Detail: "the number of bytes removed for the old _gpg member is neither computed from ar.Header.Size nor made even anywhere in its derivation: a length measured from stream positions after draining the member leaves out the padding newline of an odd-sized member (the ar reader consumes it only when it moves on), which then stays behind and misaligns everything after it"})
		case r.rounded:
			out = append(out, gFinding{Key: key, Pos: p.Pos(ci.Pos()), OK: true, Detail: "header size rounded up to even"})
		default:
			out = append(out, gFinding{Key: key, Pos: p.Pos(ci.Pos()), OK: false, Detail: "the number of bytes removed for the old _gpg member is computed from ar.Header.Size without rounding it up to even: ar pads odd members with a newline, which would stay behind and shift (or trail) everything after it, so a strict ar reader rejects the re-signed package"})
		}
	}
	return out
}
